package fw

import (
	"encoding/json"
	"fmt"
	"os"
	"path/filepath"
	"sort"
	"strings"
	"time"
)

// Status of one obligation.
type Status string

const (
	OK        Status = "discharged"
	Violation Status = "violation"
	Undecided Status = "undecided"
	Excepted  Status = "exception"
	Known     Status = "known-finding"
)

// Obligation is one rule instance: a construct the rule was evaluated on.
type Obligation struct {
	Rule   string `json:"rule"`
	Key    string `json:"key"` // rule-relative construct key (no line numbers)
	Pos    string `json:"pos,omitempty"`
	Status Status `json:"status"`
	Msg    string `json:"msg,omitempty"`
}

// Rule is a named rule with an instance floor.
type Rule struct {
	ID    string
	Desc  string
	Floor int // minimum number of instances (obligations of any status) confirmed by hand
	run   *Run
	obs   []*Obligation
}

// Run collects the obligations of one property check.
type Run struct {
	Property string
	Tier     string
	Seed     int
	Start    time.Time
	Prog     *Program
	Configs  []string
	Rules    []*Rule
	Assume   []string
	Notes    map[string]any
	Controls []ControlResult
	known    *KnownFile
	fatal    []string
}

// ControlResult is the outcome of one positive control (seeded edit through an overlay).
type ControlResult struct {
	ID      string `json:"id"`
	Rule    string `json:"rule"`
	Outcome string `json:"outcome"` // fired | missed | skipped | broken
	Detail  string `json:"detail,omitempty"`
}

type KnownFinding struct {
	Property       string `json:"property"`
	Rule           string `json:"rule"`
	Key            string `json:"key"`
	What           string `json:"what"`
	DemonstratedBy string `json:"demonstrated_by,omitempty"`
}

type FixedFinding struct {
	Property string `json:"property"`
	Commit   string `json:"commit"`
	What     string `json:"what"`
}

type KnownFile struct {
	Findings []KnownFinding `json:"findings"`
	Fixed    []FixedFinding `json:"fixed"`
}

func VerifDir() string {
	if d := os.Getenv("VERIF_DIR"); d != "" {
		return d
	}
	return "/verif"
}

func NewRun(prop, tier string, seed int) *Run {
	r := &Run{Property: prop, Tier: tier, Seed: seed, Start: time.Now(), Notes: map[string]any{}}
	kf := &KnownFile{}
	if b, err := os.ReadFile(filepath.Join(VerifDir(), "known_findings.json")); err == nil {
		if err := json.Unmarshal(b, kf); err != nil {
			r.Fatal("known_findings.json unreadable: " + err.Error())
		}
	}
	r.known = kf
	return r
}

// Fatal records a whole-run failure (load error, missing anchor, panic).
func (r *Run) Fatal(msg string) { r.fatal = append(r.fatal, msg) }

func (r *Run) Assumption(s string) { r.Assume = append(r.Assume, s) }

// Rule declares a rule. Floors are asserted at the end of the run.
func (r *Run) Rule(id, desc string, floor int) *Rule {
	for _, x := range r.Rules {
		if x.ID == id {
			return x
		}
	}
	ru := &Rule{ID: id, Desc: desc, Floor: floor, run: r}
	r.Rules = append(r.Rules, ru)
	return ru
}

func (ru *Rule) add(key, pos string, st Status, msg string) {
	ru.obs = append(ru.obs, &Obligation{Rule: ru.ID, Key: key, Pos: pos, Status: st, Msg: msg})
}

// Ok records a discharged obligation.
func (ru *Rule) Ok(key, pos, msg string) { ru.add(key, pos, OK, msg) }

// Fail records a refuted obligation (subject to known-findings).
func (ru *Rule) Fail(key, pos, msg string) {
	for _, k := range ru.run.known.Findings {
		if k.Property == ru.run.Property && k.Rule == ru.ID && k.Key == key {
			ru.add(key, pos, Known, k.What)
			return
		}
	}
	ru.add(key, pos, Violation, msg)
}

// Undecided records an obligation the engine could not decide; counts as failure.
func (ru *Rule) Undecided(key, pos, msg string) { ru.add(key, pos, Undecided, msg) }

// Except records an instance covered by a named exception with a reason.
func (ru *Rule) Except(key, pos, reason string) { ru.add(key, pos, Excepted, reason) }

// Check is Ok/Fail by condition.
func (ru *Rule) Check(cond bool, key, pos, okMsg, failMsg string) bool {
	if cond {
		ru.Ok(key, pos, okMsg)
	} else {
		ru.Fail(key, pos, failMsg)
	}
	return cond
}

func (ru *Rule) Count() int { return len(ru.obs) }

type ruleSummary struct {
	ID          string `json:"id"`
	Desc        string `json:"desc"`
	Instances   int    `json:"instances"`
	Floor       int    `json:"floor"`
	Discharged  int    `json:"discharged"`
	Exceptions  int    `json:"exceptions_used"`
	Known       int    `json:"known_findings"`
	Violations  int    `json:"violations"`
	Undecided   int    `json:"undecided"`
}

// Finish asserts floors, prints the verdict, writes evidence and the replay file. Returns the exit code.
func (r *Run) Finish() int {
	ev := filepath.Join(VerifDir(), "evidence")
	_ = os.MkdirAll(ev, 0o755)
	var sums []ruleSummary
	var bad []*Obligation
	var knownLines []string
	total, discharged := 0, 0
	var samples []any
	for _, ru := range r.Rules {
		s := ruleSummary{ID: ru.ID, Desc: ru.Desc, Floor: ru.Floor, Instances: len(ru.obs)}
		nsample := 0
		for _, o := range ru.obs {
			total++
			switch o.Status {
			case OK:
				s.Discharged++
				discharged++
				if nsample < 2 {
					samples = append(samples, map[string]string{"rule": o.Rule, "construct": o.Key, "at": o.Pos, "result": string(o.Status), "detail": o.Msg})
					nsample++
				}
			case Excepted:
				s.Exceptions++
				discharged++
			case Known:
				s.Known++
				knownLines = append(knownLines, fmt.Sprintf("KNOWN-FINDING: property=%s %s [%s %s at %s]", r.Property, o.Msg, o.Rule, o.Key, o.Pos))
			case Violation:
				s.Violations++
				bad = append(bad, o)
			case Undecided:
				s.Undecided++
				bad = append(bad, o)
			}
		}
		if len(ru.obs) < ru.Floor {
			o := &Obligation{Rule: ru.ID, Key: "floor", Status: Undecided,
				Msg: fmt.Sprintf("rule matched %d instances, floor confirmed by hand is %d (anchor moved or rule vacuous)", len(ru.obs), ru.Floor)}
			bad = append(bad, o)
			s.Undecided++
			total++
		}
		sums = append(sums, s)
	}
	for _, f := range r.fatal {
		bad = append(bad, &Obligation{Rule: "run", Key: "fatal", Status: Undecided, Msg: f})
		total++
	}
	for _, c := range r.Controls {
		if c.Outcome == "missed" || c.Outcome == "broken" {
			bad = append(bad, &Obligation{Rule: c.Rule, Key: "control:" + c.ID, Status: Undecided,
				Msg: "positive control " + c.Outcome + ": " + c.Detail})
			total++
		}
	}
	sort.Strings(knownLines)
	for _, l := range knownLines {
		fmt.Println(l)
	}
	fmt.Printf("== %s tier=%s: %d rules, %d obligations, %d discharged, %d known findings, %d failing\n",
		r.Property, r.Tier, len(r.Rules), total, discharged, len(knownLines), len(bad))
	for _, s := range sums {
		fmt.Printf("   %-16s instances=%-5d floor=%-5d ok=%-5d exc=%-3d known=%-2d viol=%-2d undecided=%-2d  %s\n",
			s.ID, s.Instances, s.Floor, s.Discharged, s.Exceptions, s.Known, s.Violations, s.Undecided, s.Desc)
	}
	for _, c := range r.Controls {
		fmt.Printf("   control %-28s rule=%-14s %s %s\n", c.ID, c.Rule, c.Outcome, c.Detail)
	}
	replay := filepath.Join(ev, r.Property+".violations.json")
	if len(bad) > 0 {
		for _, o := range bad {
			fmt.Printf("  %s %s %s at %s: %s\n", strings.ToUpper(string(o.Status)), o.Rule, o.Key, o.Pos, o.Msg)
		}
		b, _ := json.MarshalIndent(map[string]any{"property": r.Property, "tier": r.Tier, "repo": RepoDir(), "violations": bad}, "", " ")
		_ = os.WriteFile(replay, b, 0o644)
		fmt.Printf("VIOLATION property=%s replay=%s\n", r.Property, replay)
	} else {
		_ = os.Remove(replay)
	}

	pk, fns := 0, 0
	if r.Prog != nil {
		pk = len(r.Prog.Roots)
		for fn := range r.Prog.AllFns {
			if InFq(fn) {
				fns++
			}
		}
	}
	var ruleTexts []string
	for _, s := range sums {
		ruleTexts = append(ruleTexts, s.ID+": "+s.Desc)
	}
	if samples == nil {
		samples = []any{}
	}
	cov := map[string]any{
		"explanation": "Static analysis of /repo's current source (go/packages+go/types+go/ssa, bundled *.jq through the embedded gojq parser). " +
			"Each rule is a structural necessary condition of the property evaluated on every instance in the source; the behaviour itself is not decided. Rules: " +
			strings.Join(ruleTexts, " | "),
		"obligations":        total,
		"discharged":         discharged,
		"rules":              sums,
		"samples":            samples,
		"packages_analysed":  pk,
		"functions_analysed": fns,
		"build_configs":      r.Configs,
		"controls":           r.Controls,
		"known_findings":     knownLines,
		"checker_cmd":        strings.Join(os.Args, " "),
		"exhaustive":         false,
	}
	for k, v := range r.Notes {
		cov[k] = v
	}
	if r.Controls == nil {
		cov["controls"] = []any{}
	}
	evd := map[string]any{
		"property_id": r.Property,
		"tier":        r.Tier,
		"seed":        r.Seed,
		"level":       "other",
		"coverage":    cov,
		"assumptions": append([]string{
			"Go type checker and go/ssa construction are correct; VTA call graph is sound absent reflect/unsafe calls into fq functions",
			"standard library, embedded gojq interpreter and third-party decoders behave as documented",
		}, r.Assume...),
		"wall_s":     time.Since(r.Start).Seconds(),
		"violations": len(bad),
	}
	b, _ := json.MarshalIndent(evd, "", " ")
	if err := os.WriteFile(filepath.Join(ev, r.Property+".json"), b, 0o644); err != nil {
		fmt.Println("cannot write evidence:", err)
		return 1
	}
	if len(bad) > 0 {
		return 1
	}
	return 0
}

// Scratch returns an empty run that collects the obligations of rules borrowed from another
// property's rule set (no known findings, never finished or printed).
func (r *Run) Scratch() *Run {
	return &Run{Property: r.Property, Tier: r.Tier, Seed: r.Seed, Start: r.Start, Prog: r.Prog, Notes: map[string]any{}, known: &KnownFile{}}
}

// Import copies the obligations of rule fromRule of a scratch run into this run under the rule id
// asRule (created with desc and floor), keeping only keys accepted by keep (nil = all).
func (r *Run) Import(from *Run, fromRule, asRule, desc string, floor int, keep func(key string) bool) {
	dst := r.Rule(asRule, desc, floor)
	for _, ru := range from.Rules {
		if ru.ID != fromRule {
			continue
		}
		for _, o := range ru.obs {
			if keep != nil && !keep(o.Key) {
				continue
			}
			switch o.Status {
			case OK:
				dst.Ok(o.Key, o.Pos, o.Msg)
			case Excepted:
				dst.Except(o.Key, o.Pos, o.Msg)
			case Undecided:
				dst.Undecided(o.Key, o.Pos, o.Msg)
			default:
				dst.Fail(o.Key, o.Pos, o.Msg)
			}
		}
	}
	for _, f := range from.fatal {
		dst.Undecided("borrowed:"+fromRule, "", f)
	}
}
