package fw

// Role-based symbolic evaluation of SSA values (used by the C04 rules).
//
// PolyEnv names memory by source-level access paths rooted in parameters. The gap
// computation works on local struct cells, slices that grow through append and elements
// indexed by loop variables, so this evaluator names *locations* instead:
//
//	parameter / local cell          -> role name given by the rule (or a unique default)
//	x.f                             -> <loc(x)>.f
//	s[i]                            -> <slice root of s>[<poly of i>]
//	len(s)                          -> len(<slice root of s>)
//
// The slice root of a value is found through phi nodes and append chains (merged =
// append(merged, m) keeps its identity). Integer values are polynomials over such atoms;
// small single-block helpers (Range.Stop) are inlined with their receiver bound to the
// caller's location. Loads are not time-stamped: rules only relate a condition to the code
// it directly guards.

import (
	"fmt"
	"go/constant"
	"go/token"
	"go/types"
	"os"
	"sort"
	"strings"

	"golang.org/x/tools/go/ssa"
)

// GxVal is a symbolic value: P for integers/booleans, Loc for aggregates, addresses, slices.
type GxVal struct {
	P   *Poly
	Loc string
}

type GxSym struct {
	Fn    *ssa.Function
	Names map[ssa.Value]string // role names for parameters, allocs, slice roots
	bind  map[ssa.Value]GxVal
	memo  map[ssa.Value]GxVal
	depth int
}

func NewGxSym(fn *ssa.Function) *GxSym {
	return &GxSym{Fn: fn, Names: map[ssa.Value]string{}, memo: map[ssa.Value]GxVal{}}
}

// Name assigns a role name to a parameter, alloc or slice root.
func (s *GxSym) Name(v ssa.Value, role string) { s.Names[v] = role; s.memo = map[ssa.Value]GxVal{} }

func (s *GxSym) nameOf(v ssa.Value) string {
	if n, ok := s.Names[v]; ok {
		return n
	}
	switch x := v.(type) {
	case *ssa.Parameter:
		return "p:" + x.Name()
	case *ssa.FreeVar:
		return "fv:" + x.Name()
	case *ssa.Global:
		return "g:" + x.Pkg.Pkg.Name() + "." + x.Name()
	}
	return "v:" + v.Name()
}

// GxParamCopy: an Alloc whose only store is a parameter of the function (the spill go/ssa
// makes for an addressable parameter) denotes that parameter.
func GxParamCopy(a *ssa.Alloc) *ssa.Parameter {
	var par *ssa.Parameter
	n := 0
	if a.Referrers() == nil {
		return nil
	}
	for _, r := range *a.Referrers() {
		if st, ok := r.(*ssa.Store); ok && st.Addr == ssa.Value(a) {
			n++
			par, _ = st.Val.(*ssa.Parameter)
		}
	}
	if n == 1 {
		return par
	}
	return nil
}

// GxCopyOf: an Alloc that is written exactly once, as a whole, with a value loaded from another
// location, and is afterwards only read (whole or by field) is a local copy of that location
// (next := ranges[j]; for _, gap := range gaps). Returns the source address, or nil.
func GxCopyOf(a *ssa.Alloc) ssa.Value {
	if a.Referrers() == nil {
		return nil
	}
	var src ssa.Value
	n := 0
	var readOnly func(addr ssa.Value) bool
	readOnly = func(addr ssa.Value) bool {
		if addr.Referrers() == nil {
			return true
		}
		for _, r := range *addr.Referrers() {
			switch x := r.(type) {
			case *ssa.UnOp:
				if x.Op != token.MUL {
					return false
				}
			case *ssa.FieldAddr:
				if !readOnly(x) {
					return false
				}
			case *ssa.Store:
				if addr != ssa.Value(a) || x.Addr != addr {
					return false
				}
				n++
				if u, ok := x.Val.(*ssa.UnOp); ok && u.Op == token.MUL {
					src = u.X
				} else {
					return false
				}
			case *ssa.DebugRef:
			default:
				return false
			}
		}
		return true
	}
	if !readOnly(a) || n != 1 {
		return nil
	}
	return src
}

// GxSliceRoots returns the origins of a slice value through phis, append chains and conversions.
func GxSliceRoots(v ssa.Value) []ssa.Value {
	seen := map[ssa.Value]bool{}
	rootSet := map[ssa.Value]bool{}
	var rec func(v ssa.Value)
	rec = func(v ssa.Value) {
		if seen[v] {
			return
		}
		seen[v] = true
		switch x := v.(type) {
		case *ssa.Phi:
			for _, e := range x.Edges {
				rec(e)
			}
			return
		case *ssa.ChangeType:
			rec(x.X)
			return
		case *ssa.Call:
			if b, ok := x.Call.Value.(*ssa.Builtin); ok && b.Name() == "append" && len(x.Call.Args) > 0 {
				rec(x.Call.Args[0])
				return
			}
		case *ssa.Slice:
			if x.Low == nil && x.High == nil && x.Max == nil {
				if _, isPtr := x.X.Type().Underlying().(*types.Pointer); isPtr {
					rootSet[x.X] = true // slice of a whole array cell (literal / varargs)
					return
				}
				rec(x.X)
				return
			}
		}
		rootSet[v] = true
	}
	rec(v)
	var out []ssa.Value
	for r := range rootSet {
		out = append(out, r)
	}
	sort.Slice(out, func(i, j int) bool { return out[i].Name() < out[j].Name() })
	return out
}

// GxSliceRoot returns the single origin of a slice value, or nil.
func GxSliceRoot(v ssa.Value) ssa.Value {
	r := GxSliceRoots(v)
	if len(r) == 1 {
		return r[0]
	}
	return nil
}

func (s *GxSym) SliceName(v ssa.Value) string {
	if b, ok := s.bind[v]; ok && b.Loc != "" {
		return b.Loc
	}
	rs := GxSliceRoots(v)
	var parts []string
	for _, r := range rs {
		if u, ok := r.(*ssa.UnOp); ok && u.Op == token.MUL {
			parts = append(parts, s.Val(u).Loc)
			continue
		}
		if b, ok := s.bind[r]; ok && b.Loc != "" {
			parts = append(parts, b.Loc)
			continue
		}
		parts = append(parts, s.nameOf(r))
	}
	if len(parts) == 1 {
		return parts[0]
	}
	sort.Strings(parts)
	return "{" + strings.Join(parts, "|") + "}"
}

func gxFieldName(t types.Type, i int) string {
	if p, ok := t.Underlying().(*types.Pointer); ok {
		t = p.Elem()
	}
	if st, ok := t.Underlying().(*types.Struct); ok && i < st.NumFields() {
		return st.Field(i).Name()
	}
	return "f?"
}

func gxIsScalar(t types.Type) bool {
	b, ok := t.Underlying().(*types.Basic)
	return ok && b.Info()&(types.IsInteger|types.IsBoolean) != 0
}

// Val evaluates v.
func (s *GxSym) Val(v ssa.Value) GxVal {
	if b, ok := s.bind[v]; ok {
		return b
	}
	if m, ok := s.memo[v]; ok {
		return m
	}
	r := s.val(v)
	s.memo[v] = r
	return r
}

// Int returns the polynomial of an integer/boolean value.
func (s *GxSym) Int(v ssa.Value) *Poly {
	r := s.Val(v)
	if r.P != nil {
		return r.P
	}
	return PAtom(r.Loc)
}

func (s *GxSym) scalarAt(loc string, t types.Type) GxVal {
	if strings.HasPrefix(loc, "zero") {
		return GxVal{P: PConst(0)}
	}
	if gxIsScalar(t) {
		return GxVal{P: PAtom(loc)}
	}
	return GxVal{Loc: loc}
}

func (s *GxSym) val(v ssa.Value) GxVal {
	switch x := v.(type) {
	case *ssa.Const:
		if x.Value == nil {
			if _, isStruct := x.Type().Underlying().(*types.Struct); isStruct {
				return GxVal{Loc: "zero"}
			}
			return GxVal{Loc: "nil", P: PAtom("nil")}
		}
		switch x.Value.Kind() {
		case constant.Int:
			if i, ok := constant.Int64Val(x.Value); ok {
				return GxVal{P: PConst(i)}
			}
		case constant.Bool:
			if constant.BoolVal(x.Value) {
				return GxVal{P: PConst(1)}
			}
			return GxVal{P: PConst(0)}
		}
		return GxVal{P: PAtom("const:" + x.Value.ExactString())}
	case *ssa.Parameter:
		return s.scalarAt(s.nameOf(x), x.Type())
	case *ssa.FreeVar:
		return GxVal{Loc: s.nameOf(x)}
	case *ssa.Global:
		return GxVal{Loc: s.nameOf(x)}
	case *ssa.Alloc:
		if _, ok := s.Names[x]; ok {
			return GxVal{Loc: s.nameOf(x)}
		}
		if par := GxParamCopy(x); par != nil {
			pv := s.Val(par)
			if pv.Loc != "" {
				return GxVal{Loc: pv.Loc}
			}
			return GxVal{Loc: s.nameOf(par)}
		}
		if src := GxCopyOf(x); src != nil {
			if l := s.Val(src).Loc; l != "" {
				return GxVal{Loc: l}
			}
		}
		return GxVal{Loc: s.nameOf(x)}
	case *ssa.FieldAddr:
		return GxVal{Loc: s.Val(x.X).Loc + "." + gxFieldName(x.X.Type(), x.Field)}
	case *ssa.Field:
		return s.scalarAt(s.Val(x.X).Loc+"."+gxFieldName(x.X.Type(), x.Field), x.Type())
	case *ssa.IndexAddr:
		base := ""
		if _, isPtr := x.X.Type().Underlying().(*types.Pointer); isPtr {
			base = s.Val(x.X).Loc
		} else {
			base = s.SliceName(x.X)
		}
		return GxVal{Loc: base + "[" + s.Int(x.Index).String() + "]"}
	case *ssa.UnOp:
		switch x.Op {
		case token.MUL:
			return s.scalarAt(s.Val(x.X).Loc, x.Type())
		case token.SUB:
			return GxVal{P: s.Int(x.X).Neg()}
		case token.NOT:
			return GxVal{P: PConst(1).Sub(s.Int(x.X))}
		}
	case *ssa.Convert:
		if gxIsScalar(x.Type()) && gxIsScalar(x.X.Type()) {
			return s.Val(x.X)
		}
	case *ssa.ChangeType:
		return s.Val(x.X)
	case *ssa.ChangeInterface:
		return s.Val(x.X)
	case *ssa.MakeInterface:
		return s.Val(x.X)
	case *ssa.BinOp:
		if gxIsScalar(x.Type()) && gxIsScalar(x.X.Type()) {
			a, b := s.Int(x.X), s.Int(x.Y)
			switch x.Op {
			case token.ADD:
				return GxVal{P: a.Add(b)}
			case token.SUB:
				return GxVal{P: a.Sub(b)}
			case token.MUL:
				return GxVal{P: a.Mul(b)}
			}
			return GxVal{P: PAtom("(" + a.String() + " " + x.Op.String() + " " + b.String() + ")")}
		}
	case *ssa.Phi:
		var atom GxVal
		switch {
		case gxIsScalar(x.Type()):
			atom = GxVal{P: PAtom("phi:" + x.Name())}
		default:
			if _, isSlice := x.Type().Underlying().(*types.Slice); isSlice {
				atom = GxVal{Loc: s.SliceName(x)}
			} else {
				atom = GxVal{Loc: "phi:" + x.Name()}
			}
		}
		s.memo[v] = atom // cycle breaker for loop-carried values
		var first *GxVal
		same := true
		for _, e := range x.Edges {
			if e == v {
				continue
			}
			if _, isPhi := e.(*ssa.Phi); isPhi {
				same = false
				break
			}
			ev := s.Val(e)
			if first == nil {
				first = &ev
			} else if !gxValEqual(*first, ev) {
				same = false
			}
		}
		if same && first != nil && !gxValEqual(*first, atom) {
			s.memo = map[ssa.Value]GxVal{} // values memoised over the placeholder are stale
			return *first
		}
		return atom
	case *ssa.MakeSlice, *ssa.Slice:
		return GxVal{Loc: s.SliceName(v)}
	case *ssa.Extract:
		return s.scalarAt(s.Val(x.Tuple).Loc+"#"+string(rune('0'+x.Index)), x.Type())
	case *ssa.Call:
		return s.call(x)
	}
	return s.scalarAt(s.nameOf(v), v.Type())
}

func gxValEqual(a, b GxVal) bool {
	if (a.P == nil) != (b.P == nil) {
		return false
	}
	if a.P != nil {
		return a.P.Equal(b.P)
	}
	return a.Loc == b.Loc
}

// gxInlinable: a single-block fq function returning one value and built only from loads,
// field selections and arithmetic.
func gxInlinable(f *ssa.Function) bool {
	if f == nil || len(f.Blocks) != 1 || !InFq(f) || len(f.Blocks[0].Instrs) > 24 {
		return false
	}
	for _, ins := range f.Blocks[0].Instrs {
		switch x := ins.(type) {
		case *ssa.Return:
			if len(x.Results) != 1 {
				return false
			}
		case *ssa.Store:
			if a, ok := x.Addr.(*ssa.Alloc); !ok || GxParamCopy(a) == nil {
				return false
			}
		case *ssa.Alloc, *ssa.BinOp, *ssa.UnOp, *ssa.Field, *ssa.FieldAddr, *ssa.Convert, *ssa.ChangeType, *ssa.DebugRef:
		default:
			return false
		}
	}
	return true
}

func (s *GxSym) call(c *ssa.Call) GxVal {
	cc := c.Common()
	if b, ok := cc.Value.(*ssa.Builtin); ok {
		switch b.Name() {
		case "len", "cap":
			return GxVal{P: PAtom(b.Name() + "(" + s.SliceName(cc.Args[0]) + ")")}
		case "append":
			return GxVal{Loc: s.SliceName(c)}
		case "min", "max":
			var as []string
			for _, a := range cc.Args {
				as = append(as, s.Int(a).String())
			}
			sort.Strings(as)
			return GxVal{P: PAtom(b.Name() + "(" + strings.Join(as, ", ") + ")")}
		}
	}
	callee := cc.StaticCallee()
	if callee != nil && s.depth < 3 && gxInlinable(callee) && !cc.IsInvoke() {
		sub := &GxSym{Fn: callee, Names: map[ssa.Value]string{}, bind: map[ssa.Value]GxVal{}, memo: map[ssa.Value]GxVal{}, depth: s.depth + 1}
		for i, p := range callee.Params {
			if i < len(cc.Args) {
				sub.bind[p] = s.Val(cc.Args[i])
			}
		}
		ret := callee.Blocks[0].Instrs[len(callee.Blocks[0].Instrs)-1].(*ssa.Return)
		return sub.Val(ret.Results[0])
	}
	name := "dyn"
	if cc.IsInvoke() {
		name = "invoke:" + cc.Method.Name()
	} else if callee != nil {
		name = callee.String()
		if o := callee.Origin(); o != nil {
			name = o.String()
		}
	}
	var as []string
	if cc.IsInvoke() {
		as = append(as, s.Val(cc.Value).Loc)
	}
	for _, a := range cc.Args {
		av := s.Val(a)
		if av.P != nil {
			as = append(as, av.P.String())
		} else {
			as = append(as, av.Loc)
		}
	}
	return s.scalarAt("call:"+strings.ReplaceAll(name, Mod+"/", "")+"("+strings.Join(as, ", ")+")@"+c.Name(), c.Type())
}

// ---------------------------------------------------------------------------
// facts

type GxFactKind int

const (
	GxGE GxFactKind = iota // P >= 0
	GxEQ                   // P == 0
	GxNE                   // P != 0
)

// GxFact is a normalised integer/boolean condition. Strict and reversed inequalities are
// rewritten over the integers: a<b => b-a-1>=0. EQ/NE are sign-normalised by Same().
type GxFact struct {
	P *Poly
	K GxFactKind
}

func (f GxFact) String() string {
	return f.P.String() + [...]string{" >= 0", " == 0", " != 0"}[f.K]
}

// norm rewrites len(x) != 0 as len(x)-1 >= 0 (lengths are non-negative).
func (f GxFact) norm() GxFact {
	if f.K != GxNE || len(f.P.T) != 1 {
		return f
	}
	for k, c := range f.P.T {
		if strings.HasPrefix(k, "len(") && !strings.Contains(k, "*") && c.IsInt64() && (c.Int64() == 1 || c.Int64() == -1) {
			return GxFact{PAtom(k).Sub(PConst(1)), GxGE}
		}
	}
	return f
}

// Same reports whether two facts are the same condition.
func (f GxFact) Same(g GxFact) bool {
	if f.K != g.K {
		return false
	}
	if f.P.Equal(g.P) {
		return true
	}
	return f.K != GxGE && f.P.Equal(g.P.Neg())
}

// Negate returns the complement.
func (f GxFact) Negate() GxFact {
	switch f.K {
	case GxEQ:
		return GxFact{f.P, GxNE}.norm()
	case GxNE:
		return GxFact{f.P, GxEQ}
	}
	// !(P >= 0)  <=>  -P-1 >= 0
	return GxFact{f.P.Neg().Sub(PConst(1)), GxGE}
}

// Not is Negate followed by normalisation.
func (f GxFact) Not() GxFact { return f.Negate().norm() }

// Mentions reports whether an atom with the given prefix occurs in the fact.
func (f GxFact) Mentions(prefix string) bool {
	for _, a := range f.P.Atoms() {
		if strings.HasPrefix(a, prefix) {
			return true
		}
	}
	return false
}

// Implies: syntactic implication between two facts over the same polynomial up to a constant.
func (f GxFact) Implies(q GxFact) bool {
	switch f.K {
	case GxEQ:
		// P == 0: decide q by substituting when q.P = s*P + d
		for _, sgn := range []int64{1, -1} {
			if d, ok := q.P.Sub(f.P.MulC(sgn)).IsConst(); ok {
				switch q.K {
				case GxGE:
					return d >= 0
				case GxEQ:
					return d == 0
				case GxNE:
					return d != 0
				}
			}
		}
	case GxGE:
		if q.K == GxGE {
			if d, ok := q.P.Sub(f.P).IsConst(); ok {
				return d >= 0
			}
		}
		if q.K == GxNE {
			// P >= 0 implies P + d != 0 for d > 0, and -P - d != 0
			for _, sgn := range []int64{1, -1} {
				if d, ok := q.P.MulC(sgn).Sub(f.P).IsConst(); ok && d > 0 {
					return true
				}
			}
		}
	case GxNE:
		return q.K == GxNE && f.Same(q)
	}
	return false
}

// FactOf normalises a branch condition with the given truth value.
func (s *GxSym) FactOf(cond ssa.Value, truth bool) (GxFact, bool) {
	for {
		u, ok := cond.(*ssa.UnOp)
		if !ok || u.Op != token.NOT {
			break
		}
		cond, truth = u.X, !truth
	}
	var f GxFact
	if b, ok := cond.(*ssa.BinOp); ok && gxIsScalar(b.X.Type()) {
		x, y := s.Int(b.X), s.Int(b.Y)
		switch b.Op {
		case token.EQL:
			f = GxFact{x.Sub(y), GxEQ}
		case token.NEQ:
			f = GxFact{x.Sub(y), GxNE}
		case token.LSS:
			f = GxFact{y.Sub(x).Sub(PConst(1)), GxGE}
		case token.LEQ:
			f = GxFact{y.Sub(x), GxGE}
		case token.GTR:
			f = GxFact{x.Sub(y).Sub(PConst(1)), GxGE}
		case token.GEQ:
			f = GxFact{x.Sub(y), GxGE}
		default:
			return GxFact{}, false
		}
	} else if b, ok := cond.(*ssa.BinOp); ok && (b.Op == token.EQL || b.Op == token.NEQ) {
		// identity comparison of pointers / interfaces: compare locations
		x, y := PAtom(s.Val(b.X).Loc), PAtom(s.Val(b.Y).Loc)
		f = GxFact{x.Sub(y), GxEQ}
		if b.Op == token.NEQ {
			f.K = GxNE
		}
	} else if gxIsScalar(cond.Type()) {
		f = GxFact{s.Int(cond), GxNE} // boolean value: b != 0
	} else {
		return GxFact{}, false
	}
	if !truth {
		f = f.Negate()
	}
	return f.norm(), true
}

// GxGuardFact pairs a fact with the If that established it and the polarity of the condition.
type GxGuardFact struct {
	GxFact
	If   *ssa.If
	True bool
}

// GuardFacts returns the normalised facts known at block b (dominating branch conditions). A
// condition that is a call of a small boolean fq helper (extracted predicate) is expanded into
// the conjunction that makes it return the observed value, when that conjunction is unique.
func (s *GxSym) GuardFacts(b *ssa.BasicBlock) []GxGuardFact {
	var out []GxGuardFact
	for _, g := range Guards(b) {
		s.condFacts(g.Cond, g.True, g.If, g.True, &out, 0)
	}
	return out
}

// CondFacts appends the facts that follow from cond having the given truth value (see condFacts).
func (s *GxSym) CondFacts(cond ssa.Value, truth bool, out *[]GxGuardFact) {
	s.condFacts(cond, truth, nil, truth, out, 0)
}

// condFacts appends the facts that follow from cond having the given truth value. A condition
// that is a boolean phi (go/ssa evaluates `a && b` as a value in switch-case expressions and in
// assignments) with exactly one incoming edge able to carry that truth value is replaced by the
// conditions of that edge: the guards of the predecessor, the branch taken into the phi block
// and the incoming value itself.
func (s *GxSym) condFacts(cond ssa.Value, truth bool, ifi *ssa.If, ifTrue bool, out *[]GxGuardFact, depth int) {
	for {
		u, ok := cond.(*ssa.UnOp)
		if !ok || u.Op != token.NOT {
			break
		}
		cond, truth = u.X, !truth
	}
	if fs, ok := s.expandBoolCall(cond, truth); ok {
		for _, f := range fs {
			*out = append(*out, GxGuardFact{GxFact: f, If: ifi, True: ifTrue})
		}
		return
	}
	if ph, ok := cond.(*ssa.Phi); ok && depth < 4 && gxIsScalar(ph.Type()) && !GxIsLoopHeaderPhi(ph) {
		cand := -1
		n := 0
		for i, e := range ph.Edges {
			if c, isC := e.(*ssa.Const); isC && c.Value != nil && c.Value.Kind() == constant.Bool && constant.BoolVal(c.Value) != truth {
				continue
			}
			cand = i
			n++
		}
		if n == 1 && cand < len(ph.Block().Preds) {
			pred := ph.Block().Preds[cand]
			var sub []GxGuardFact
			for _, g := range Guards(pred) {
				s.condFacts(g.Cond, g.True, ifi, ifTrue, &sub, depth+1)
			}
			if pi, isIf := pred.Instrs[len(pred.Instrs)-1].(*ssa.If); isIf && len(pred.Succs) == 2 && pred.Succs[0] != pred.Succs[1] {
				s.condFacts(pi.Cond, pred.Succs[0] == ph.Block(), ifi, ifTrue, &sub, depth+1)
			}
			if _, isC := ph.Edges[cand].(*ssa.Const); !isC {
				s.condFacts(ph.Edges[cand], truth, ifi, ifTrue, &sub, depth+1)
			}
			for _, f := range sub {
				dup := false
				for _, o := range *out {
					if o.Same(f.GxFact) {
						dup = true
					}
				}
				if !dup {
					*out = append(*out, f)
				}
			}
			return
		}
	}
	if f, ok := s.FactOf(cond, truth); ok {
		*out = append(*out, GxGuardFact{GxFact: f, If: ifi, True: ifTrue})
	}
}

// expandBoolCall: cond is (a negation of) a call of a loop-free fq function returning bool.
// Enumerates the callee's paths; if exactly one set of branch outcomes yields the wanted result,
// returns those outcomes as facts over the caller's locations.
func (s *GxSym) expandBoolCall(cond ssa.Value, truth bool) ([]GxFact, bool) {
	for {
		u, ok := cond.(*ssa.UnOp)
		if !ok || u.Op != token.NOT {
			break
		}
		cond, truth = u.X, !truth
	}
	c, ok := cond.(*ssa.Call)
	if !ok || s.depth >= 3 {
		return nil, false
	}
	callee := c.Common().StaticCallee()
	if callee == nil || c.Common().IsInvoke() || !InFq(callee) || len(callee.Blocks) == 0 || len(callee.Blocks) > 12 || gxInlinable(callee) {
		return nil, false
	}
	res := callee.Signature.Results()
	if res.Len() != 1 || !gxIsScalar(res.At(0).Type()) {
		return nil, false
	}
	for _, b := range callee.Blocks {
		for _, ins := range b.Instrs {
			switch x := ins.(type) {
			case *ssa.Call, *ssa.Go, *ssa.Defer, *ssa.Panic, *ssa.MapUpdate, *ssa.Send:
				if cl, isCall := x.(*ssa.Call); isCall && gxInlinable(cl.Common().StaticCallee()) {
					continue
				}
				return nil, false
			case *ssa.Store:
				if a, ok := x.Addr.(*ssa.Alloc); !ok || GxParamCopy(a) == nil {
					return nil, false
				}
			}
		}
	}
	sub := &GxSym{Fn: callee, Names: map[ssa.Value]string{}, bind: map[ssa.Value]GxVal{}, memo: map[ssa.Value]GxVal{}, depth: s.depth + 1}
	for i, p := range callee.Params {
		if i < len(c.Common().Args) {
			sub.bind[p] = s.Val(c.Common().Args[i])
		}
	}
	var winners [][]GxFact
	good := true
	var walk func(b, from *ssa.BasicBlock, facts []GxFact, seen map[*ssa.BasicBlock]bool)
	walk = func(b, from *ssa.BasicBlock, facts []GxFact, seen map[*ssa.BasicBlock]bool) {
		if !good {
			return
		}
		if seen[b] {
			good = false
			return
		}
		seen[b] = true
		defer delete(seen, b)
		switch last := b.Instrs[len(b.Instrs)-1].(type) {
		case *ssa.Return:
			v := last.Results[0]
			if ph, ok := v.(*ssa.Phi); ok && ph.Block() == b && from != nil {
				for i, pr := range b.Preds {
					if pr == from {
						v = ph.Edges[i]
					}
				}
			}
			if k, ok := v.(*ssa.Const); ok && k.Value != nil && k.Value.Kind() == constant.Bool {
				if constant.BoolVal(k.Value) == truth {
					winners = append(winners, append([]GxFact(nil), facts...))
				}
				return
			}
			f, ok := sub.FactOf(v, truth)
			if !ok {
				good = false
				return
			}
			winners = append(winners, append(append([]GxFact(nil), facts...), f))
		case *ssa.If:
			for _, su := range b.Succs {
				f, ok := sub.EdgeFact(b, su)
				if !ok {
					good = false
					return
				}
				walk(su, b, append(append([]GxFact(nil), facts...), f), seen)
			}
		case *ssa.Jump:
			walk(b.Succs[0], b, facts, seen)
		default:
			good = false
		}
	}
	walk(callee.Blocks[0], nil, nil, map[*ssa.BasicBlock]bool{})
	if !good || len(winners) != 1 {
		return nil, false
	}
	return winners[0], true
}

// GxIsLoopExitGuard: the guard was established by leaving a loop that does not contain block b
// (the exit condition of a preceding loop holds whenever b is reached; it restricts nothing).
func GxIsLoopExitGuard(ifi *ssa.If, b *ssa.BasicBlock) bool {
	ib := ifi.Block()
	for h := ib; h != nil; h = h.Idom() {
		isHeader := false
		for _, p := range h.Preds {
			if h.Dominates(p) {
				isHeader = true
			}
		}
		if !isHeader {
			continue
		}
		l := GxNaturalLoop(h)
		if l[ib] && !l[b] {
			return true
		}
	}
	return false
}

// EdgeFact returns the fact established by taking the edge from -> to (from ends in If).
func (s *GxSym) EdgeFact(from, to *ssa.BasicBlock) (GxFact, bool) {
	ifi, ok := from.Instrs[len(from.Instrs)-1].(*ssa.If)
	if !ok || len(from.Succs) != 2 || from.Succs[0] == from.Succs[1] {
		return GxFact{}, false
	}
	return s.FactOf(ifi.Cond, from.Succs[0] == to)
}

// ---------------------------------------------------------------------------
// literals and loops

// GxLitFields returns the per-field stored values of a composite literal cell (an Alloc that is
// initialised by one store per field); nested struct fields get dotted names ("Range.Start").
// v may be the cell or a load of it. ok=false when a field is stored more than once, the cell
// is overwritten as a whole by a non-zero value, or v is no cell.
func GxLitFields(v ssa.Value) (fields map[string]ssa.Value, cell *ssa.Alloc, ok bool) {
	if u, isLoad := v.(*ssa.UnOp); isLoad && u.Op == token.MUL {
		v = u.X
	}
	a, isAlloc := v.(*ssa.Alloc)
	if !isAlloc || a.Referrers() == nil {
		return nil, nil, false
	}
	fields = map[string]ssa.Value{}
	good := true
	var walk func(addr ssa.Value, prefix string)
	walk = func(addr ssa.Value, prefix string) {
		if addr.Referrers() == nil {
			return
		}
		for _, r := range *addr.Referrers() {
			switch x := r.(type) {
			case *ssa.FieldAddr:
				if x.X != addr {
					continue
				}
				name := prefix + gxFieldName(addr.Type(), x.Field)
				walk(x, name+".")
			case *ssa.Store:
				if x.Addr != addr {
					continue
				}
				if prefix == "" {
					// whole-value store: only a zero constant keeps this a literal
					if c, isConst := x.Val.(*ssa.Const); !isConst || c.Value != nil {
						good = false
					}
					continue
				}
				name := strings.TrimSuffix(prefix, ".")
				if _, dup := fields[name]; dup {
					good = false
				}
				fields[name] = x.Val
			}
		}
	}
	walk(a, "")
	return fields, a, good
}

// GxAppendElems returns the values appended by an append(s, e1, e2...) call whose variadic part
// is a compiler-made array cell; nil when the second argument is an arbitrary slice.
func GxAppendElems(c *ssa.Call) []ssa.Value {
	b, ok := c.Call.Value.(*ssa.Builtin)
	if !ok || b.Name() != "append" || len(c.Call.Args) != 2 {
		return nil
	}
	sl, ok := c.Call.Args[1].(*ssa.Slice)
	if !ok {
		return nil
	}
	a, ok := sl.X.(*ssa.Alloc)
	if !ok || a.Referrers() == nil {
		return nil
	}
	byIdx := map[int64]ssa.Value{}
	for _, r := range *a.Referrers() {
		ia, ok := r.(*ssa.IndexAddr)
		if !ok || ia.Referrers() == nil {
			continue
		}
		k, ok := ia.Index.(*ssa.Const)
		if !ok {
			return nil
		}
		for _, rr := range *ia.Referrers() {
			if st, ok := rr.(*ssa.Store); ok && st.Addr == ssa.Value(ia) {
				byIdx[k.Int64()] = st.Val
			}
		}
	}
	var out []ssa.Value
	for i := int64(0); i < int64(len(byIdx)); i++ {
		v, ok := byIdx[i]
		if !ok {
			return nil
		}
		out = append(out, v)
	}
	return out
}

// GxLoopPhi decomposes an index value idx = phi + a where phi is a loop-carried variable with one
// constant initial value and a constant step. ok=false otherwise.
func GxLoopPhi(idx ssa.Value) (phi *ssa.Phi, off, init, step int64, ok bool) {
	v := idx
	for {
		switch x := v.(type) {
		case *ssa.Phi:
			phi = x
		case *ssa.BinOp:
			c, isC := x.Y.(*ssa.Const)
			if isC && c.Value != nil && (x.Op == token.ADD || x.Op == token.SUB) {
				d := c.Int64()
				if x.Op == token.SUB {
					d = -d
				}
				off += d
				v = x.X
				continue
			}
			return nil, 0, 0, 0, false
		case *ssa.Convert:
			v = x.X
			continue
		default:
			return nil, 0, 0, 0, false
		}
		break
	}
	haveInit, haveStep := false, false
	for _, e := range phi.Edges {
		if c, isC := e.(*ssa.Const); isC && c.Value != nil {
			if haveInit && c.Int64() != init {
				return nil, 0, 0, 0, false
			}
			init, haveInit = c.Int64(), true
			continue
		}
		// e = phi + k
		k := int64(0)
		w := e
		for {
			b, isB := w.(*ssa.BinOp)
			if !isB {
				break
			}
			c, isC := b.Y.(*ssa.Const)
			if !isC || c.Value == nil || (b.Op != token.ADD && b.Op != token.SUB) {
				return nil, 0, 0, 0, false
			}
			if b.Op == token.ADD {
				k += c.Int64()
			} else {
				k -= c.Int64()
			}
			w = b.X
		}
		if w != ssa.Value(phi) {
			return nil, 0, 0, 0, false
		}
		if haveStep && k != step {
			return nil, 0, 0, 0, false
		}
		step, haveStep = k, true
	}
	if !haveInit || !haveStep {
		return nil, 0, 0, 0, false
	}
	return phi, off, init, step, true
}

// IterBound returns, for the use of index value idx in block use, the facts that bound idx
// on entry to that block, expressed over the atom "IDX" standing for the value of idx:
// either dominating guards (classic and range-over-slice loops) or, for a self-looping
// body that hosts the phi (range-over-int lowering), the condition of every incoming edge
// with the incoming value substituted.
func (s *GxSym) IterBound(idx ssa.Value, use *ssa.BasicBlock) ([]GxFact, bool) {
	phi, off, _, _, ok := GxLoopPhi(idx)
	if !ok {
		return nil, false
	}
	phiAtom := s.Int(phi)
	var out []GxFact
	if phi.Block() != use || len(Guards(use)) > 0 && gxGuardsMention(s, use, phiAtom) {
		for _, g := range s.GuardFacts(use) {
			if !GxPolyMentions(g.P, phiAtom) {
				continue
			}
			// express over IDX: phi = IDX - off
			out = append(out, GxFact{GxReplaceAtom(g.P, phiAtom, PAtom("IDX").Sub(PConst(off))), g.K})
		}
		return out, len(out) > 0
	}
	// phi hosted by the use block: every predecessor edge must carry the bound
	var common *GxFact
	for i, pred := range use.Preds {
		f, ok := s.EdgeFact(pred, use)
		if !ok {
			return nil, false
		}
		in := s.Int(phi.Edges[i]).Add(PConst(off)) // value of idx on this entry
		// f is over the incoming expression; rewrite "in" as IDX: only handle in = phi + c or const
		var g GxFact
		if c, isC := in.IsConst(); isC {
			// f must be of the form  B - c' >= 0 with no phi; make it  B - IDX + (c - c') ... : add (c - IDX)
			g = GxFact{f.P.Add(PConst(c)).Sub(PAtom("IDX")), f.K}
		} else {
			d, isC := in.Sub(phiAtom).IsConst()
			if !isC {
				return nil, false
			}
			g = GxFact{GxReplaceAtom(f.P, phiAtom, PAtom("IDX").Sub(PConst(d))), f.K}
		}
		if common == nil {
			common = &g
		} else if !common.Same(g) {
			return nil, false
		}
	}
	if common == nil {
		return nil, false
	}
	return []GxFact{*common}, true
}

func gxGuardsMention(s *GxSym, b *ssa.BasicBlock, atom *Poly) bool {
	for _, g := range s.GuardFacts(b) {
		if GxPolyMentions(g.P, atom) {
			return true
		}
	}
	return false
}

func GxPolyMentions(p, atom *Poly) bool {
	as := atom.Atoms()
	if len(as) != 1 {
		return false
	}
	for _, a := range p.Atoms() {
		if a == as[0] {
			return true
		}
	}
	return false
}

// replaceAtom substitutes a (linear, degree-1) atom by a polynomial.
func GxReplaceAtom(p, atom, by *Poly) *Poly {
	as := atom.Atoms()
	if len(as) != 1 {
		return p
	}
	name := as[0]
	out := NewPoly()
	for k, c := range p.T {
		term := NewPoly()
		term.T[""] = c
		if k != "" {
			for _, f := range splitMono(k) {
				if f == name {
					term = term.Mul(by)
				} else {
					term = term.Mul(PAtom(f))
				}
			}
		}
		out = out.Add(term)
	}
	return out
}

// GxNaturalLoop returns the blocks of the natural loop with the given header.
func GxNaturalLoop(header *ssa.BasicBlock) map[*ssa.BasicBlock]bool {
	loop := map[*ssa.BasicBlock]bool{header: true}
	var stack []*ssa.BasicBlock
	for _, p := range header.Preds {
		if header.Dominates(p) && !loop[p] {
			loop[p] = true
			stack = append(stack, p)
		}
	}
	for len(stack) > 0 {
		b := stack[len(stack)-1]
		stack = stack[:len(stack)-1]
		for _, p := range b.Preds {
			if !loop[p] {
				loop[p] = true
				stack = append(stack, p)
			}
		}
	}
	return loop
}

// GxIsLoopHeaderPhi reports whether phi has an incoming edge from a block its block dominates.
func GxIsLoopHeaderPhi(phi *ssa.Phi) bool {
	b := phi.Block()
	for _, p := range b.Preds {
		if b.Dominates(p) {
			return true
		}
	}
	return false
}

// GxIfPos returns a usable source position for a branch: that of its condition.
func GxIfPos(i *ssa.If) token.Pos {
	if i == nil {
		return token.NoPos
	}
	if ins, ok := i.Cond.(ssa.Instruction); ok && ins.Pos().IsValid() {
		return ins.Pos()
	}
	for _, ins := range i.Block().Instrs {
		if ins.Pos().IsValid() {
			return ins.Pos()
		}
	}
	return token.NoPos
}

// GxDumpObligations prints every obligation of the rules whose id starts with prefix (debug aid,
// enabled by the environment variable FQVERIF_DUMP).
func (r *Run) GxDumpObligations(prefix string) {
	if os.Getenv("FQVERIF_DUMP") == "" {
		return
	}
	for _, ru := range r.Rules {
		if !strings.HasPrefix(ru.ID, prefix) {
			continue
		}
		for _, o := range ru.obs {
			fmt.Printf("  [%s] %-10s %-50s %-32s %s\n", o.Status, o.Rule, o.Key, o.Pos, o.Msg)
		}
	}
}
