package fw

import (
	"go/constant"
	"strings"
	"go/token"
	"go/types"
	"math"

	"golang.org/x/tools/go/ssa"
)

// Interval is a closed integer interval with optional infinite ends (engine E3).
type Interval struct {
	Lo, Hi     int64
	LoInf, HiInf bool
}

func TopIv() Interval                { return Interval{LoInf: true, HiInf: true} }
func Exact(c int64) Interval       { return Interval{Lo: c, Hi: c} }
func Range(lo, hi int64) Interval  { return Interval{Lo: lo, Hi: hi} }
func AtLeast(lo int64) Interval    { return Interval{Lo: lo, HiInf: true} }
func (i Interval) IsTop() bool     { return i.LoInf && i.HiInf }
func (i Interval) NonNeg() bool    { return !i.LoInf && i.Lo >= 0 }
func (i Interval) Positive() bool  { return !i.LoInf && i.Lo > 0 }
func (i Interval) NonZero() bool   { return (!i.LoInf && i.Lo > 0) || (!i.HiInf && i.Hi < 0) }
func (i Interval) Below(n int64) bool { return !i.HiInf && i.Hi < n }

func (i Interval) Join(j Interval) Interval {
	r := Interval{}
	r.LoInf = i.LoInf || j.LoInf
	r.HiInf = i.HiInf || j.HiInf
	if !r.LoInf {
		r.Lo = min(i.Lo, j.Lo)
	}
	if !r.HiInf {
		r.Hi = max(i.Hi, j.Hi)
	}
	return r
}

func (i Interval) Meet(j Interval) Interval {
	r := i
	if !j.LoInf && (r.LoInf || j.Lo > r.Lo) {
		r.LoInf, r.Lo = false, j.Lo
	}
	if !j.HiInf && (r.HiInf || j.Hi < r.Hi) {
		r.HiInf, r.Hi = false, j.Hi
	}
	return r
}

func satAdd(a, b int64) (int64, bool) {
	c := a + b
	if (a > 0 && b > 0 && c < 0) || (a < 0 && b < 0 && c >= 0) {
		return 0, false
	}
	return c, true
}

func satMul(a, b int64) (int64, bool) {
	if a == 0 || b == 0 {
		return 0, true
	}
	c := a * b
	if c/b != a {
		return 0, false
	}
	return c, true
}

func typeRange(t types.Type) Interval {
	b, ok := t.Underlying().(*types.Basic)
	if !ok {
		return TopIv()
	}
	switch b.Kind() {
	case types.Uint8:
		return Range(0, 255)
	case types.Uint16:
		return Range(0, 65535)
	case types.Uint32:
		return Range(0, math.MaxUint32)
	case types.Uint64, types.Uint, types.Uintptr:
		return AtLeast(0) // as a mathematical value; conversions to signed are handled at Convert
	case types.Int8:
		return Range(-128, 127)
	case types.Int16:
		return Range(-32768, 32767)
	case types.Int32:
		return Range(math.MinInt32, math.MaxInt32)
	case types.Bool:
		return Range(0, 1)
	}
	return TopIv()
}

func isUnsigned(t types.Type) bool {
	b, ok := t.Underlying().(*types.Basic)
	return ok && b.Info()&types.IsUnsigned != 0
}

func intBits(t types.Type) int {
	b, ok := t.Underlying().(*types.Basic)
	if !ok {
		return 64
	}
	switch b.Kind() {
	case types.Int8, types.Uint8:
		return 8
	case types.Int16, types.Uint16:
		return 16
	case types.Int32, types.Uint32:
		return 32
	}
	return 64
}

// IntervalEnv computes intervals of integer SSA values of one function.
type IntervalEnv struct {
	Fn *ssa.Function
	// CallRange lets rules give result intervals for calls (e.g. reader widths); return ok=false for unknown.
	CallRange func(c *ssa.Call, resultIndex int) (Interval, bool)
	// AtomConst gives constant values for polynomial atoms (e.g. len of a constant-length table) when refining with facts.
	AtomConst map[string]int64
	// FieldRange gives an invariant interval for loads of a struct field (type string without module prefix, field name).
	FieldRange func(structType string, field string) (Interval, bool)
	depth     int
	memo      map[ssa.Value]Interval
	inprog    map[ssa.Value]bool
	Poly      *PolyEnv
}

func NewIntervalEnv(fn *ssa.Function) *IntervalEnv {
	return &IntervalEnv{Fn: fn, memo: map[ssa.Value]Interval{}, inprog: map[ssa.Value]bool{}, Poly: NewPolyEnv(fn)}
}

// Of returns a flow-insensitive interval of v (definition-based).
func (e *IntervalEnv) Of(v ssa.Value) Interval {
	if r, ok := e.memo[v]; ok {
		return r
	}
	if e.inprog[v] {
		return TopIv()
	}
	e.inprog[v] = true
	r := e.of(v).Meet(typeRangeIfSmall(v.Type()))
	delete(e.inprog, v)
	e.memo[v] = r
	return r
}

func typeRangeIfSmall(t types.Type) Interval {
	if !isIntType(t) {
		if b, ok := t.Underlying().(*types.Basic); ok && b.Kind() == types.Bool {
			return Range(0, 1)
		}
		return TopIv()
	}
	return typeRange(t)
}

func (e *IntervalEnv) of(v ssa.Value) Interval {
	switch x := v.(type) {
	case *ssa.Const:
		if x.Value != nil && x.Value.Kind() == constant.Int {
			if i, ok := constant.Int64Val(x.Value); ok {
				return Exact(i)
			}
			return AtLeast(math.MaxInt64)
		}
		return TopIv()
	case *ssa.Convert:
		if !isIntType(x.Type()) {
			return TopIv()
		}
		if !isIntType(x.X.Type()) {
			// float -> int: unknown
			return typeRange(x.Type())
		}
		src := e.Of(x.X)
		dst := typeRange(x.Type())
		sb, db := intBits(x.X.Type()), intBits(x.Type())
		su, du := isUnsigned(x.X.Type()), isUnsigned(x.Type())
		// conversions that preserve every value of the source type
		if (su == du && sb <= db) || (su && !du && sb < db) {
			return src.Meet(dst)
		}
		// otherwise the value is preserved only when the source interval fits the destination type
		fits := !src.LoInf && !src.HiInf
		if fits {
			if du {
				fits = src.Lo >= 0 && (db == 64 || src.Hi <= (int64(1)<<uint(db))-1)
			} else {
				lim := int64(math.MaxInt64)
				if db < 64 {
					lim = int64(1)<<uint(db-1) - 1
				}
				fits = src.Hi <= lim && src.Lo >= -lim-1
			}
		}
		// signed -> unsigned of the same width with a non-negative source
		if !fits && du && !su && sb <= db && src.NonNeg() {
			return src
		}
		if fits {
			return src.Meet(dst)
		}
		return dst
	case *ssa.ChangeType:
		return e.Of(x.X)
	case *ssa.BinOp:
		if !isIntType(x.Type()) {
			return TopIv()
		}
		a, b := e.Of(x.X), e.Of(x.Y)
		switch x.Op {
		case token.ADD:
			return addIv(a, b)
		case token.SUB:
			return addIv(a, negIv(b))
		case token.MUL:
			return mulIv(a, b)
		case token.AND:
			// x & c with c >= 0  -> [0, c]
			if b.NonNeg() && !b.HiInf {
				return Range(0, b.Hi)
			}
			if a.NonNeg() && !a.HiInf {
				return Range(0, a.Hi)
			}
			if a.NonNeg() || b.NonNeg() {
				return AtLeast(0)
			}
		case token.OR, token.XOR:
			if a.NonNeg() && b.NonNeg() {
				if !a.HiInf && !b.HiInf {
					return Range(0, nextPow2(max(a.Hi, b.Hi))-1)
				}
				return AtLeast(0)
			}
		case token.SHR:
			if a.NonNeg() {
				r := AtLeast(0)
				if !a.HiInf {
					r = Range(0, a.Hi)
					if !b.LoInf && b.Lo >= 0 && b.Lo < 63 {
						r.Hi = a.Hi >> uint(b.Lo)
					}
				}
				return r
			}
		case token.SHL:
			if a.NonNeg() && b.NonNeg() && !a.HiInf && !b.HiInf && b.Hi < 62 {
				if hi, ok := satMul(a.Hi, int64(1)<<uint(b.Hi)); ok {
					return Range(a.Lo<<uint(b.Lo), hi)
				}
				return AtLeast(0)
			}
		case token.REM:
			if !b.LoInf && !b.HiInf {
				m := max(abs64(b.Lo), abs64(b.Hi))
				if m > 0 {
					if a.NonNeg() {
						return Range(0, m-1)
					}
					return Range(-(m - 1), m-1)
				}
			}
			if a.NonNeg() {
				return AtLeast(0)
			}
		case token.QUO:
			if a.NonNeg() && b.Positive() {
				r := AtLeast(0)
				if !a.HiInf {
					r = Range(0, a.Hi/b.Lo)
				}
				return r
			}
		}
		return TopIv()
	case *ssa.UnOp:
		if x.Op == token.SUB {
			return negIv(e.Of(x.X))
		}
		if x.Op == token.MUL {
			// load of a local variable that lives in memory only because a closure captures it: if it is
			// assigned exactly once (here) and no closure assigns it, every load sees that value
			if al, ok := x.X.(*ssa.Alloc); ok {
				if v := singleAssigned(al); v != nil {
					return e.Of(v)
				}
			}
		}
		if x.Op == token.MUL && e.FieldRange != nil {
			if fa, ok := x.X.(*ssa.FieldAddr); ok {
				if r, ok := e.FieldRange(structTypeName(fa.X.Type()), fieldName(fa.X.Type(), fa.Field)); ok {
					return r
				}
			}
		}
		return TopIv()
	case *ssa.Field:
		if e.FieldRange != nil {
			if r, ok := e.FieldRange(structTypeName(x.X.Type()), fieldName(x.X.Type(), x.Field)); ok {
				return r
			}
		}
		return TopIv()
	case *ssa.Phi:
		// simple induction: edges are constants and phi+positive const
		var r Interval
		first := true
		for _, ed := range x.Edges {
			var iv Interval
			if isIncrementOf(ed, x) {
				continue
			}
			iv = e.Of(ed)
			if first {
				r, first = iv, false
			} else {
				r = r.Join(iv)
			}
		}
		hasInc := false
		for _, ed := range x.Edges {
			if isIncrementOf(ed, x) {
				hasInc = true
			}
		}
		if first {
			return TopIv()
		}
		if hasInc {
			r.HiInf = true
		}
		return r
	case *ssa.Call:
		return e.ofCall(x, 0)
	case *ssa.Extract:
		if c, ok := x.Tuple.(*ssa.Call); ok {
			return e.ofCall(c, x.Index)
		}
	}
	return TopIv()
}

// isIncrementOf: v == phi + c with c > 0 constant.
func isIncrementOf(v ssa.Value, phi *ssa.Phi) bool {
	b, ok := v.(*ssa.BinOp)
	if !ok || b.Op != token.ADD {
		return false
	}
	if b.X == ssa.Value(phi) {
		if c, ok := b.Y.(*ssa.Const); ok && c.Value != nil && c.Int64() > 0 {
			return true
		}
	}
	if b.Y == ssa.Value(phi) {
		if c, ok := b.X.(*ssa.Const); ok && c.Value != nil && c.Int64() > 0 {
			return true
		}
	}
	return false
}

func (e *IntervalEnv) ofCall(c *ssa.Call, idx int) Interval {
	cc := c.Common()
	if b, ok := cc.Value.(*ssa.Builtin); ok {
		switch b.Name() {
		case "len", "cap":
			if cst, ok := cc.Args[0].(*ssa.Const); ok && cst.Value != nil && cst.Value.Kind() == constant.String {
				return Exact(int64(len(constant.StringVal(cst.Value))))
			}
			if at, ok := cc.Args[0].Type().Underlying().(*types.Array); ok {
				return Exact(at.Len())
			}
			if pt, ok := cc.Args[0].Type().Underlying().(*types.Pointer); ok {
				if at, ok := pt.Elem().Underlying().(*types.Array); ok {
					return Exact(at.Len())
				}
			}
			return AtLeast(0)
		case "min":
			r := e.Of(cc.Args[0])
			for _, a := range cc.Args[1:] {
				x := e.Of(a)
				// min: hi = min of his, lo = min of los
				n := Interval{}
				n.LoInf = r.LoInf || x.LoInf
				if !n.LoInf {
					n.Lo = min(r.Lo, x.Lo)
				}
				switch {
				case r.HiInf && x.HiInf:
					n.HiInf = true
				case r.HiInf:
					n.Hi = x.Hi
				case x.HiInf:
					n.Hi = r.Hi
				default:
					n.Hi = min(r.Hi, x.Hi)
				}
				r = n
			}
			return r
		case "max":
			r := e.Of(cc.Args[0])
			for _, a := range cc.Args[1:] {
				x := e.Of(a)
				n := Interval{}
				n.HiInf = r.HiInf || x.HiInf
				if !n.HiInf {
					n.Hi = max(r.Hi, x.Hi)
				}
				switch {
				case r.LoInf && x.LoInf:
					n.LoInf = true
				case r.LoInf:
					n.Lo = x.Lo
				case x.LoInf:
					n.Lo = r.Lo
				default:
					n.Lo = max(r.Lo, x.Lo)
				}
				r = n
			}
			return r
		}
		return TopIv()
	}
	if e.CallRange != nil {
		if r, ok := e.CallRange(c, idx); ok {
			return r
		}
	}
	callee := cc.StaticCallee()
	if callee != nil && InFq(callee) && callee.Blocks != nil && e.depth < 2 && isIntType(resultType(callee, idx)) {
		// summary: join of the intervals of the returned values (parameters unknown)
		sub := NewIntervalEnv(callee)
		sub.depth = e.depth + 1
		sub.FieldRange = e.FieldRange
		var r Interval
		first := true
		for _, b := range callee.Blocks {
			if ret, ok := b.Instrs[len(b.Instrs)-1].(*ssa.Return); ok && idx < len(ret.Results) {
				iv := sub.At(ret.Results[idx], b)
				if first {
					r, first = iv, false
				} else {
					r = r.Join(iv)
				}
			}
		}
		if !first && !r.IsTop() {
			return r
		}
	}
	if callee != nil && idx == 0 {
		name := callee.String()
		if o := callee.Origin(); o != nil {
			name = o.String()
		}
		switch name {
		case Mod + "/internal/mathx.Clamp":
			// Clamp(min, max, v)
			lo, hi := e.Of(cc.Args[0]), e.Of(cc.Args[1])
			r := TopIv()
			if !lo.LoInf {
				r.LoInf, r.Lo = false, lo.Lo
			}
			if !hi.HiInf {
				r.HiInf, r.Hi = false, hi.Hi
			}
			return r
		case Mod + "/pkg/bitio.BitsByteCount":
			a := e.Of(cc.Args[0])
			if a.NonNeg() {
				return AtLeast(0)
			}
		}
	}
	return TopIv()
}

func addIv(a, b Interval) Interval {
	r := Interval{LoInf: a.LoInf || b.LoInf, HiInf: a.HiInf || b.HiInf}
	if !r.LoInf {
		if s, ok := satAdd(a.Lo, b.Lo); ok {
			r.Lo = s
		} else {
			r.LoInf = true
		}
	}
	if !r.HiInf {
		if s, ok := satAdd(a.Hi, b.Hi); ok {
			r.Hi = s
		} else {
			r.HiInf = true
		}
	}
	return r
}

func negIv(a Interval) Interval {
	r := Interval{LoInf: a.HiInf, HiInf: a.LoInf}
	if !r.LoInf {
		r.Lo = -a.Hi
	}
	if !r.HiInf {
		r.Hi = -a.Lo
	}
	return r
}

func mulIv(a, b Interval) Interval {
	if a.NonNeg() && b.NonNeg() {
		r := AtLeast(0)
		if lo, ok := satMul(a.Lo, b.Lo); ok {
			r.Lo = lo
		}
		if !a.HiInf && !b.HiInf {
			if hi, ok := satMul(a.Hi, b.Hi); ok {
				r.HiInf, r.Hi = false, hi
			}
		}
		return r
	}
	if !a.LoInf && !a.HiInf && !b.LoInf && !b.HiInf {
		var vals []int64
		for _, x := range []int64{a.Lo, a.Hi} {
			for _, y := range []int64{b.Lo, b.Hi} {
				p, ok := satMul(x, y)
				if !ok {
					return TopIv()
				}
				vals = append(vals, p)
			}
		}
		lo, hi := vals[0], vals[0]
		for _, v := range vals {
			lo, hi = min(lo, v), max(hi, v)
		}
		return Range(lo, hi)
	}
	return TopIv()
}

func abs64(a int64) int64 {
	if a < 0 {
		return -a
	}
	return a
}

func nextPow2(v int64) int64 {
	p := int64(1)
	for p <= v && p < 1<<62 {
		p <<= 1
	}
	return p
}

// At refines the definition-based interval of v with the comparison facts dominating block b
// (facts against constants, or against other values whose interval is known).
func (e *IntervalEnv) At(v ssa.Value, b *ssa.BasicBlock) Interval {
	r := e.Of(v)
	pv := e.Poly.Of(v)
	for _, f := range e.Poly.Facts(b) {
		if len(e.AtomConst) > 0 {
			f.P = substAtoms(f.P, e.AtomConst)
		}
		r = r.Meet(boundFromFact(f, pv))
	}
	// facts on a value v was converted from (same polynomial through int conversions is already handled by Poly)
	return r
}

// boundFromFact derives an interval for the value with polynomial pv from fact f when f.P == s*pv + d.
// BoundFromFact is the exported form of boundFromFact.
func BoundFromFact(f Cmp, pv *Poly) Interval { return boundFromFact(f, pv) }

func boundFromFact(f Cmp, pv *Poly) Interval {
	for _, s := range []int64{1, -1} {
		d, ok := f.P.Sub(pv.MulC(s)).IsConst()
		if !ok {
			continue
		}
		// s*pv + d rel 0
		rel := f.Rel
		if s == 1 {
			switch rel {
			case EQ:
				return Exact(-d)
			case LT:
				return Interval{LoInf: true, Hi: -d - 1}
			case LE:
				return Interval{LoInf: true, Hi: -d}
			case GT:
				return AtLeast(-d + 1)
			case GE:
				return AtLeast(-d)
			}
		} else {
			// -pv + d rel 0  <=>  pv rel' d
			switch rel {
			case EQ:
				return Exact(d)
			case LT: // -pv + d < 0 -> pv > d
				return AtLeast(d + 1)
			case LE:
				return AtLeast(d)
			case GT: // pv < d
				return Interval{LoInf: true, Hi: d - 1}
			case GE:
				return Interval{LoInf: true, Hi: d}
			}
		}
	}
	return TopIv()
}

// ProvedNonNeg / ProvedPositive / ProvedNonZero combine interval and polynomial facts.
func (e *IntervalEnv) ProvedNonNeg(v ssa.Value, b *ssa.BasicBlock) bool {
	if e.At(v, b).NonNeg() || e.Poly.Proves(b, Cmp{P: e.Poly.Of(v), Rel: GE}) {
		return true
	}
	// len(x) - v < 0 (or <= 0): v exceeds a length, which is never negative
	pv := e.Poly.Of(v)
	for _, f := range e.Poly.Facts(b) {
		if f.Rel != LT && f.Rel != LE {
			continue
		}
		rest := f.P.Add(pv)
		if len(rest.T) > 2 || rest.Const() < 0 {
			continue
		}
		okAtoms := true
		n := 0
		for k, c := range rest.T {
			if k == "" {
				continue
			}
			n++
			if !(strings.HasPrefix(k, "len(") || strings.HasPrefix(k, "cap(")) || !c.IsInt64() || c.Int64() != 1 {
				okAtoms = false
			}
		}
		if okAtoms && n == 1 {
			return true
		}
	}
	return false
}

// ProvedNonNegDeep: like ProvedNonNeg, but a phi is proved edge by edge with the facts that hold
// on each incoming edge (a value clamped on one branch: `if m > 0 && n > m { n = m }`).
func (e *IntervalEnv) ProvedNonNegDeep(v ssa.Value, b *ssa.BasicBlock) bool {
	return e.provedNonNegDeep(v, b, 0)
}

func (e *IntervalEnv) provedNonNegDeep(v ssa.Value, b *ssa.BasicBlock, depth int) bool {
	if e.ProvedNonNeg(v, b) {
		return true
	}
	// min(a, b, ...) >= 0 when every argument is; max(a, b, ...) >= 0 when one is. A narrowing conversion of the
	// result keeps the sign when the result is bounded above by an argument that already has the narrow type
	if c, isCall := SxStripConv(v).(*ssa.Call); isCall && depth <= 3 {
		if bi, isB := c.Common().Value.(*ssa.Builtin); isB && (bi.Name() == "min" || bi.Name() == "max") {
			fits := sizeOfInt(v.Type()) >= sizeOfInt(c.Type())
			all, any := true, false
			for _, a := range c.Common().Args {
				if e.provedNonNegDeep(a, b, depth+1) {
					any = true
				} else {
					all = false
				}
				if bi.Name() == "min" && sizeOfInt(SxStripConv(a).Type()) <= sizeOfInt(v.Type()) {
					fits = true
				}
			}
			if fits && ((bi.Name() == "min" && all) || (bi.Name() == "max" && any && sizeOfInt(v.Type()) >= sizeOfInt(c.Type()))) {
				return true
			}
		}
	}
	phi, ok := SxStripConv(v).(*ssa.Phi)
	if !ok || depth > 3 {
		return false
	}
	if phi != v {
		// a narrowing conversion of the phi could change the sign; only widening or same-size ones are followed
		if sizeOfInt(v.Type()) < sizeOfInt(phi.Type()) {
			return false
		}
	}
	for i, ed := range phi.Edges {
		pred := phi.Block().Preds[i]
		if e.provedNonNegDeep(ed, pred, depth+1) {
			continue
		}
		iv := e.Of(ed)
		pv := e.Poly.Of(ed)
		for _, f := range e.Poly.EdgeFacts(pred, phi.Block()) {
			iv = iv.Meet(boundFromFact(f, pv))
		}
		if iv.NonNeg() || ProvesFrom(e.Poly.EdgeFacts(pred, phi.Block()), Cmp{P: pv, Rel: GE}) {
			continue
		}
		return false
	}
	return true
}

func sizeOfInt(t types.Type) int {
	if b, ok := t.Underlying().(*types.Basic); ok {
		switch b.Kind() {
		case types.Int8, types.Uint8:
			return 1
		case types.Int16, types.Uint16:
			return 2
		case types.Int32, types.Uint32:
			return 4
		case types.Int64, types.Uint64:
			return 8
		case types.Int, types.Uint, types.Uintptr:
			return 4 // the smaller of the two supported word sizes
		}
	}
	return 0
}

func (e *IntervalEnv) ProvedNonZero(v ssa.Value, b *ssa.BasicBlock) bool {
	return e.At(v, b).NonZero() || e.Poly.Proves(b, Cmp{P: e.Poly.Of(v), Rel: NE}) || e.Poly.Proves(b, Cmp{P: e.Poly.Of(v), Rel: GT})
}

func structTypeName(t types.Type) string {
	if p, ok := t.Underlying().(*types.Pointer); ok {
		t = p.Elem()
	}
	s := types.TypeString(t, nil)
	if len(s) > len(Mod)+1 && s[:len(Mod)+1] == Mod+"/" {
		return s[len(Mod)+1:]
	}
	return s
}

// ProvedNonZeroPhi: like ProvedNonZero, but a phi is proved edge by edge with the facts of each incoming edge.
func (e *IntervalEnv) ProvedNonZeroDeep(v ssa.Value, b *ssa.BasicBlock) bool {
	if e.ProvedNonZero(v, b) {
		return true
	}
	phi, ok := v.(*ssa.Phi)
	if !ok {
		return false
	}
	for i, ed := range phi.Edges {
		pred := phi.Block().Preds[i]
		if e.ProvedNonZero(ed, pred) {
			continue
		}
		iv := e.Of(ed)
		pv := e.Poly.Of(ed)
		for _, f := range e.Poly.EdgeFacts(pred, phi.Block()) {
			iv = iv.Meet(boundFromFact(f, pv))
		}
		if iv.NonZero() || ProvesFrom(e.Poly.EdgeFacts(pred, phi.Block()), Cmp{P: pv, Rel: NE}) {
			continue
		}
		return false
	}
	return true
}

func resultType(f *ssa.Function, idx int) types.Type {
	res := f.Signature.Results()
	if idx < res.Len() {
		return res.At(idx).Type()
	}
	return types.Typ[types.Invalid]
}

// substAtoms replaces atoms with known constants (only in linear monomials).
func substAtoms(p *Poly, m map[string]int64) *Poly {
	q := NewPoly()
	for k, c := range p.T {
		if v, ok := m[k]; ok && c.IsInt64() {
			q = q.Add(PConst(c.Int64() * v))
			continue
		}
		t := NewPoly()
		t.T[k] = c
		q = q.Add(t)
	}
	return q
}

// singleAssigned: the one value ever stored into the local cell al (by its function or any closure), or nil.
func singleAssigned(al *ssa.Alloc) ssa.Value {
	if al.Referrers() == nil {
		return nil
	}
	var val ssa.Value
	n := 0
	for _, r := range *al.Referrers() {
		switch x := r.(type) {
		case *ssa.Store:
			if x.Addr == ssa.Value(al) {
				val = x.Val
				n++
			} else {
				return nil // address stored somewhere
			}
		case *ssa.UnOp:
		case *ssa.MakeClosure:
			if closureWrites(x, al, 0) {
				return nil
			}
		case *ssa.DebugRef:
		default:
			return nil // address escapes (call argument, field address ...)
		}
	}
	if n != 1 {
		return nil
	}
	return val
}

// closureWrites: the closure made by mc (or a closure nested in it) stores through the free variable bound to v,
// or lets that pointer escape.
func closureWrites(mc *ssa.MakeClosure, v ssa.Value, depth int) bool {
	if depth > 6 {
		return true
	}
	fn, ok := mc.Fn.(*ssa.Function)
	if !ok {
		return true
	}
	for i, b := range mc.Bindings {
		if b != v || i >= len(fn.FreeVars) {
			continue
		}
		fv := fn.FreeVars[i]
		if fv.Referrers() == nil {
			continue
		}
		for _, r := range *fv.Referrers() {
			switch x := r.(type) {
			case *ssa.UnOp:
			case *ssa.DebugRef:
			case *ssa.Store:
				return true
			case *ssa.MakeClosure:
				if closureWrites(x, fv, depth+1) {
					return true
				}
			default:
				return true
			}
		}
	}
	return false
}
