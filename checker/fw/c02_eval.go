package fw

import (
	"regexp"
	"strconv"
	"strings"

	"golang.org/x/tools/go/ssa"
)

// ---------------------------------------------------------------------------
// inlining of pure helpers (SxEnv.InlinePure)

// sxInlinable: an unexported fq function with a single basic block, one result and only
// expression instructions (no stores, allocations, panics, go/defer): a helper that merely names
// an expression.
func sxInlinable(f *ssa.Function) bool {
	if f == nil || !InFq(f) || f.Parent() != nil || len(f.Blocks) != 1 || f.Signature.Results().Len() != 1 {
		return false
	}
	if n := f.Name(); n == "" || !(n[0] >= 'a' && n[0] <= 'z') {
		return false
	}
	for _, ins := range f.Blocks[0].Instrs {
		switch x := ins.(type) {
		case *ssa.BinOp, *ssa.Convert, *ssa.ChangeType, *ssa.Extract, *ssa.Field, *ssa.FieldAddr,
			*ssa.Index, *ssa.IndexAddr, *ssa.Slice, *ssa.Return, *ssa.DebugRef, *ssa.Call:
		case *ssa.UnOp:
			_ = x
		default:
			return false
		}
	}
	return true
}

func (e *SxEnv) inlined(f *ssa.Function, args []ssa.Value) (string, bool) {
	if !e.InlinePure || e.inlineDepth > 3 || !sxInlinable(f) || len(args) != len(f.Params) {
		return "", false
	}
	if e.NoInline != nil && e.NoInline(f) {
		return "", false
	}
	ret, ok := f.Blocks[0].Instrs[len(f.Blocks[0].Instrs)-1].(*ssa.Return)
	if !ok || len(ret.Results) != 1 {
		return "", false
	}
	al := map[ssa.Value]string{}
	for i, p := range f.Params {
		al[p] = e.Of(args[i])
	}
	sub := &SxEnv{Fn: f, prefix: "p", memo: map[ssa.Value]string{}, MaxSize: e.MaxSize, Alias: al,
		InlinePure: true, KeepNarrowing: e.KeepNarrowing, NoInline: e.NoInline, inlineDepth: e.inlineDepth + 1}
	return sub.Of(ret.Results[0]), true
}

// ---------------------------------------------------------------------------
// SxEval: evaluation of a canonical integer/boolean expression for concrete values of its symbols

var sxReInt = regexp.MustCompile(`^-?\d+$`)
var sxReCoef = regexp.MustCompile(`^(-?\d+)\*(.*)$`)

type sxEvalState struct {
	toks []string
	i    int
	sym  map[string]int64
	ok   bool
}

// SxEval evaluates s (as printed by SxEnv.Of) with the given symbol values. Symbols are matched
// textually after every occurrence of a key of subst in s has been replaced by its symbol name
// (so that e.g. "(idx p1 0)" can be treated as one symbol). Booleans are 0/1. ok=false when the
// expression contains anything that is not an integer operator, a constant or a known symbol.
func SxEval(s string, sym map[string]int64) (int64, bool) {
	st := &sxEvalState{sym: sym, ok: true}
	st.toks = strings.Fields(strings.NewReplacer("(", " ( ", ")", " ) ").Replace(s))
	v := st.sum()
	if !st.ok || st.i != len(st.toks) {
		return 0, false
	}
	return v, true
}

func (st *sxEvalState) peek() string {
	if st.i < len(st.toks) {
		return st.toks[st.i]
	}
	return ""
}

// sum := term ('+' term)*
func (st *sxEvalState) sum() int64 {
	v := st.term()
	for st.ok && st.peek() == "+" {
		st.i++
		v += st.term()
	}
	return v
}

func (st *sxEvalState) term() int64 {
	t := st.peek()
	if t == "" {
		st.ok = false
		return 0
	}
	if sxReInt.MatchString(t) {
		st.i++
		return st.parseInt(t)
	}
	if m := sxReCoef.FindStringSubmatch(t); m != nil {
		st.i++
		k := st.parseInt(m[1])
		if m[2] == "" {
			return k * st.atom()
		}
		// possibly a product of symbols a*b
		v := k
		for _, f := range strings.Split(m[2], "*") {
			x, ok := st.sym[f]
			if !ok {
				st.ok = false
				return 0
			}
			v *= x
		}
		return v
	}
	return st.atom()
}

func (st *sxEvalState) parseInt(t string) int64 {
	n, err := strconv.ParseInt(t, 10, 64)
	if err != nil {
		// constants beyond int64 (uint64 masks)
		u, err2 := strconv.ParseUint(t, 10, 64)
		if err2 != nil {
			st.ok = false
			return 0
		}
		return int64(u)
	}
	return n
}

func (st *sxEvalState) atom() int64 {
	t := st.peek()
	if t != "(" {
		st.i++
		if x, ok := st.sym[t]; ok {
			return x
		}
		switch t {
		case "true":
			return 1
		case "false":
			return 0
		}
		st.ok = false
		return 0
	}
	st.i++
	op := st.peek()
	st.i++
	var args []int64
	if op == "conv" {
		st.i++ // type name (single token for integer types)
	}
	for st.ok && st.peek() != ")" && st.peek() != "" {
		args = append(args, st.sum())
	}
	if st.peek() != ")" {
		st.ok = false
		return 0
	}
	st.i++
	if !st.ok {
		return 0
	}
	b2i := func(b bool) int64 {
		if b {
			return 1
		}
		return 0
	}
	if op == "conv" || op == "!" || (op == "^" && len(args) == 1) || op == "neg" {
		if len(args) != 1 {
			st.ok = false
			return 0
		}
		switch op {
		case "conv":
			return args[0]
		case "!":
			return b2i(args[0] == 0)
		case "^":
			return ^args[0]
		default:
			return -args[0]
		}
	}
	if op == "min" || op == "max" {
		if len(args) == 0 {
			st.ok = false
			return 0
		}
		v := args[0]
		for _, a := range args[1:] {
			if (op == "min" && a < v) || (op == "max" && a > v) {
				v = a
			}
		}
		return v
	}
	if len(args) != 2 {
		st.ok = false
		return 0
	}
	a, b := args[0], args[1]
	switch op {
	case "&":
		return a & b
	case "|":
		return a | b
	case "&^":
		return a &^ b
	case "^":
		return a ^ b
	case "<<":
		if b < 0 || b > 63 {
			if b < 0 {
				st.ok = false
			}
			return 0
		}
		return a << uint(b)
	case ">>":
		if b < 0 {
			st.ok = false
			return 0
		}
		if b > 63 {
			b = 63
		}
		return a >> uint(b)
	case "%":
		if b == 0 {
			st.ok = false
			return 0
		}
		return a % b
	case "/":
		if b == 0 {
			st.ok = false
			return 0
		}
		return a / b
	case ">":
		return b2i(a > b)
	case ">=":
		return b2i(a >= b)
	case "==":
		return b2i(a == b)
	case "!=":
		return b2i(a != b)
	}
	st.ok = false
	return 0
}
