package fw

import (
	"fmt"
	"io"
)

// C13Dump lists every obligation recorded so far (debugging aid behind C13_DUMP=1; decides nothing).
func (r *Run) C13Dump(w io.Writer) {
	for _, ru := range r.Rules {
		for _, o := range ru.obs {
			fmt.Fprintf(w, "DUMP %s %s %s at %s: %s\n", o.Status, o.Rule, o.Key, o.Pos, o.Msg)
		}
	}
}
