package fw

import (
	"fmt"
	"regexp"
	"go/constant"
	"go/token"
	"go/types"
	"math/big"
	"sort"
	"strconv"
	"strings"

	"golang.org/x/tools/go/ssa"
)

// Poly is a multivariate polynomial with integer coefficients over named atoms,
// in canonical form. It is the normal form of integer SSA expressions (engine E2).
type Poly struct {
	// key: monomial = atoms joined by "*" (sorted), "" for the constant term
	T map[string]*big.Int
}

func NewPoly() *Poly { return &Poly{T: map[string]*big.Int{}} }

func PConst(c int64) *Poly {
	p := NewPoly()
	if c != 0 {
		p.T[""] = big.NewInt(c)
	}
	return p
}

func PAtom(name string) *Poly {
	p := NewPoly()
	p.T[name] = big.NewInt(1)
	return p
}

func (p *Poly) clone() *Poly {
	q := NewPoly()
	for k, v := range p.T {
		q.T[k] = new(big.Int).Set(v)
	}
	return q
}

func (p *Poly) Add(q *Poly) *Poly {
	r := p.clone()
	for k, v := range q.T {
		if x, ok := r.T[k]; ok {
			x.Add(x, v)
			if x.Sign() == 0 {
				delete(r.T, k)
			}
		} else if v.Sign() != 0 {
			r.T[k] = new(big.Int).Set(v)
		}
	}
	return r
}

func (p *Poly) Neg() *Poly {
	r := NewPoly()
	for k, v := range p.T {
		r.T[k] = new(big.Int).Neg(v)
	}
	return r
}

func (p *Poly) Sub(q *Poly) *Poly { return p.Add(q.Neg()) }

func mulMono(a, b string) string {
	if a == "" {
		return b
	}
	if b == "" {
		return a
	}
	parts := append(strings.Split(a, "*"), strings.Split(b, "*")...)
	sort.Strings(parts)
	return strings.Join(parts, "*")
}

func (p *Poly) Mul(q *Poly) *Poly {
	r := NewPoly()
	for k1, v1 := range p.T {
		for k2, v2 := range q.T {
			k := mulMono(k1, k2)
			c := new(big.Int).Mul(v1, v2)
			if x, ok := r.T[k]; ok {
				x.Add(x, c)
				if x.Sign() == 0 {
					delete(r.T, k)
				}
			} else if c.Sign() != 0 {
				r.T[k] = c
			}
		}
	}
	return r
}

func (p *Poly) MulC(c int64) *Poly { return p.Mul(PConst(c)) }

func (p *Poly) Equal(q *Poly) bool {
	if len(p.T) != len(q.T) {
		return false
	}
	for k, v := range p.T {
		w, ok := q.T[k]
		if !ok || v.Cmp(w) != 0 {
			return false
		}
	}
	return true
}

// IsConst reports whether p is a constant and returns it.
func (p *Poly) IsConst() (int64, bool) {
	if len(p.T) == 0 {
		return 0, true
	}
	if len(p.T) == 1 {
		if c, ok := p.T[""]; ok && c.IsInt64() {
			return c.Int64(), true
		}
	}
	return 0, false
}

// Const returns the constant term.
func (p *Poly) Const() int64 {
	if c, ok := p.T[""]; ok && c.IsInt64() {
		return c.Int64()
	}
	return 0
}

// Coef returns the coefficient of a monomial (atom names joined by *, sorted).
func (p *Poly) Coef(mono string) int64 {
	if c, ok := p.T[mono]; ok && c.IsInt64() {
		return c.Int64()
	}
	return 0
}

// Atoms returns the sorted set of atoms occurring in p.
func (p *Poly) Atoms() []string {
	set := map[string]bool{}
	for k := range p.T {
		if k == "" {
			continue
		}
		for _, a := range splitMono(k) {
			set[a] = true
		}
	}
	var out []string
	for a := range set {
		out = append(out, a)
	}
	sort.Strings(out)
	return out
}

// splitMono splits on '*' not inside brackets/parens.
func splitMono(k string) []string {
	var out []string
	depth := 0
	start := 0
	for i, c := range k {
		switch c {
		case '(', '[', '{':
			depth++
		case ')', ']', '}':
			depth--
		case '*':
			if depth == 0 {
				out = append(out, k[start:i])
				start = i + 1
			}
		}
	}
	return append(out, k[start:])
}

func (p *Poly) String() string {
	if len(p.T) == 0 {
		return "0"
	}
	var keys []string
	for k := range p.T {
		keys = append(keys, k)
	}
	sort.Strings(keys)
	var sb strings.Builder
	for i, k := range keys {
		c := p.T[k]
		if i > 0 {
			sb.WriteString(" + ")
		}
		switch {
		case k == "":
			sb.WriteString(c.String())
		case c.Cmp(big.NewInt(1)) == 0:
			sb.WriteString(k)
		default:
			sb.WriteString(c.String() + "*" + k)
		}
	}
	return sb.String()
}

// ParsePoly parses "a + 2*b.c - 3" where atoms are identifiers possibly with dots, '#', ':' and
// bracketed suffixes. Only + - * and integer literals; no parentheses except inside atom names.
func ParsePoly(s string) *Poly {
	res := NewPoly()
	s = strings.TrimSpace(s)
	if s == "" || s == "0" {
		return res
	}
	// split into signed terms at top-level + and -
	var terms []string
	depth := 0
	cur := ""
	for i := 0; i < len(s); i++ {
		c := s[i]
		switch c {
		case '(', '[', '{':
			depth++
		case ')', ']', '}':
			depth--
		}
		if (c == '+' || c == '-') && depth == 0 && strings.TrimSpace(cur) != "" {
			terms = append(terms, cur)
			cur = string(c)
			continue
		}
		cur += string(c)
	}
	terms = append(terms, cur)
	for _, t := range terms {
		t = strings.TrimSpace(t)
		sign := int64(1)
		if strings.HasPrefix(t, "-") {
			sign = -1
			t = strings.TrimSpace(t[1:])
		} else if strings.HasPrefix(t, "+") {
			t = strings.TrimSpace(t[1:])
		}
		term := PConst(sign)
		for _, f := range splitMono(t) {
			f = strings.TrimSpace(f)
			if n, err := strconv.ParseInt(f, 0, 64); err == nil {
				term = term.MulC(n)
			} else {
				term = term.Mul(PAtom(f))
			}
		}
		res = res.Add(term)
	}
	return res
}

// ---------------------------------------------------------------------------
// SSA -> Poly

// PolyEnv normalises integer SSA values of one function.
type PolyEnv struct {
	Fn    *ssa.Function
	Subst map[ssa.Value]*Poly // parameter substitution for inlined helpers
	Pure  map[string]bool     // callee names (ssa String()) whose calls are identified by arguments only
	depth int
	memo  map[ssa.Value]*Poly
	calls map[*ssa.Call]string
}

func NewPolyEnv(fn *ssa.Function) *PolyEnv {
	return &PolyEnv{Fn: fn, memo: map[ssa.Value]*Poly{}, Pure: map[string]bool{}}
}

// ParamAlias gives canonical (role) names to parameters so that rules written against today's
// source names keep working when a parameter or receiver is renamed.
var ParamAlias = map[*ssa.Parameter]string{}

// AliasParams names fn's parameters (receiver first) canonically by position.
func AliasParams(fn *ssa.Function, names ...string) bool {
	if len(fn.Params) != len(names) {
		return false
	}
	for i, p := range fn.Params {
		ParamAlias[p] = names[i]
	}
	return true
}

func paramName(p *ssa.Parameter) string {
	if a, ok := ParamAlias[p]; ok {
		return a
	}
	return p.Name()
}

// AccessPath gives a stable name for an address or value: parameter and field chain.
// ok=false when the value is not a parameter/free-variable/global rooted field path.
func AccessPath(v ssa.Value) (string, bool) {
	switch x := v.(type) {
	case *ssa.Parameter:
		return paramName(x), true
	case *ssa.FreeVar:
		return x.Name(), true
	case *ssa.Global:
		return x.Pkg.Pkg.Name() + "." + x.Name(), true
	case *ssa.FieldAddr:
		b, ok := AccessPath(x.X)
		if !ok {
			return "", false
		}
		return b + "." + fieldName(x.X.Type(), x.Field), true
	case *ssa.Field:
		b, ok := AccessPath(x.X)
		if !ok {
			return "", false
		}
		return b + "." + fieldName(x.X.Type(), x.Field), true
	case *ssa.UnOp:
		if x.Op == token.MUL {
			return AccessPath(x.X)
		}
	case *ssa.ChangeType:
		return AccessPath(x.X)
	case *ssa.Alloc:
		// a local whose address is taken: name by its source name when unique
		if x.Comment != "" {
			if fn := x.Parent(); fn != nil {
				for _, pa := range fn.Params {
					if pa.Name() == x.Comment {
						return "local:" + paramName(pa), true
					}
				}
			}
			return "local:" + x.Comment, true
		}
	case *ssa.IndexAddr:
		b, ok := AccessPath(x.X)
		if !ok {
			return "", false
		}
		if c, ok := x.Index.(*ssa.Const); ok && c.Value != nil {
			return b + "[" + c.Value.ExactString() + "]", true
		}
		return "", false
	}
	return "", false
}

func fieldName(t types.Type, i int) string {
	if p, ok := t.Underlying().(*types.Pointer); ok {
		t = p.Elem()
	}
	if s, ok := t.Underlying().(*types.Struct); ok && i < s.NumFields() {
		return s.Field(i).Name()
	}
	return fmt.Sprintf("f%d", i)
}

// storesBefore returns a stable suffix describing which stores to the same access path may
// precede the load (so that loads separated by a store are different atoms).
func storesBefore(load *ssa.UnOp, path string) string {
	fn := load.Parent()
	if fn == nil {
		return ""
	}
	var ids []string
	ord := 0
	for _, b := range fn.Blocks {
		for i, ins := range b.Instrs {
			st, ok := ins.(*ssa.Store)
			if !ok {
				continue
			}
			sp, ok := AccessPath(st.Addr)
			if !ok || sp != path {
				continue
			}
			ord++
			if mayPrecede(b, i, load) {
				ids = append(ids, strconv.Itoa(ord))
			}
		}
	}
	if len(ids) == 0 {
		return ""
	}
	return "#after-store" + strings.Join(ids, ",")
}

// mayPrecede: instruction i of block b can execute before ins.
func mayPrecede(b *ssa.BasicBlock, i int, ins ssa.Instruction) bool {
	tb := ins.Block()
	if tb == b {
		for j, x := range b.Instrs {
			if x == ins {
				if i < j {
					return true
				}
				break
			}
		}
		// same block later: only through a cycle
		return blockReaches(b, b, true)
	}
	return blockReaches(b, tb, false)
}

func blockReaches(from, to *ssa.BasicBlock, strict bool) bool {
	seen := map[*ssa.BasicBlock]bool{}
	var stack []*ssa.BasicBlock
	stack = append(stack, from.Succs...)
	for len(stack) > 0 {
		b := stack[len(stack)-1]
		stack = stack[:len(stack)-1]
		if seen[b] {
			continue
		}
		seen[b] = true
		if b == to {
			return true
		}
		stack = append(stack, b.Succs...)
	}
	return false
}

func isIntType(t types.Type) bool {
	b, ok := t.Underlying().(*types.Basic)
	return ok && b.Info()&types.IsInteger != 0
}

func calleeShort(c *ssa.CallCommon) string {
	if c.IsInvoke() {
		return "invoke:" + c.Method.Name()
	}
	if f := c.StaticCallee(); f != nil {
		if f.Signature.Recv() != nil {
			return f.Name()
		}
		if f.Pkg != nil {
			return f.Pkg.Pkg.Name() + "." + f.Name()
		}
		return f.Name()
	}
	if b, ok := c.Value.(*ssa.Builtin); ok {
		return b.Name()
	}
	return "dyn"
}

// Of returns the polynomial normal form of v.
func (e *PolyEnv) Of(v ssa.Value) *Poly {
	if p, ok := e.Subst[v]; ok {
		return p
	}
	if p, ok := e.memo[v]; ok {
		return p
	}
	p := e.of(v)
	e.memo[v] = p
	return p
}

func (e *PolyEnv) opaque(v ssa.Value) *Poly {
	return PAtom("?" + v.Name() + "@" + fnShort(v.Parent()))
}

func fnShort(f *ssa.Function) string {
	if f == nil {
		return ""
	}
	return f.Name()
}

func (e *PolyEnv) of(v ssa.Value) *Poly {
	switch x := v.(type) {
	case *ssa.Const:
		if x.Value == nil {
			return PAtom("nil")
		}
		switch x.Value.Kind() {
		case constant.Int:
			if i, ok := constant.Int64Val(x.Value); ok {
				return PConst(i)
			}
			if u, ok := constant.Uint64Val(x.Value); ok {
				p := NewPoly()
				p.T[""] = new(big.Int).SetUint64(u)
				return p
			}
		case constant.Bool:
			if constant.BoolVal(x.Value) {
				return PAtom("true")
			}
			return PAtom("false")
		}
		return PAtom("const:" + x.Value.ExactString())
	case *ssa.Parameter:
		return PAtom(paramName(x))
	case *ssa.FreeVar:
		return PAtom(x.Name())
	case *ssa.Convert:
		if isIntType(x.Type()) && isIntType(x.X.Type()) {
			return e.Of(x.X)
		}
		return PAtom("conv:" + types.TypeString(x.Type(), nil) + "(" + e.Of(x.X).String() + ")")
	case *ssa.ChangeType:
		return e.Of(x.X)
	case *ssa.BinOp:
		a, b := e.Of(x.X), e.Of(x.Y)
		switch x.Op {
		case token.ADD:
			if isIntType(x.Type()) {
				return a.Add(b)
			}
		case token.SUB:
			if isIntType(x.Type()) {
				return a.Sub(b)
			}
		case token.MUL:
			if isIntType(x.Type()) {
				return a.Mul(b)
			}
		case token.SHL:
			if c, ok := b.IsConst(); ok && c >= 0 && c < 63 {
				return a.MulC(1 << uint(c))
			}
		}
		as, bs := a.String(), b.String()
		switch x.Op {
		case token.EQL, token.NEQ, token.AND, token.OR, token.XOR:
			if as > bs {
				as, bs = bs, as
			}
		}
		return PAtom("(" + as + " " + x.Op.String() + " " + bs + ")")
	case *ssa.UnOp:
		switch x.Op {
		case token.SUB:
			return e.Of(x.X).Neg()
		case token.MUL:
			if path, ok := AccessPath(x.X); ok {
				if _, isAlloc := x.X.(*ssa.Alloc); !isAlloc {
					return PAtom(path + storesBefore(x, path))
				}
				return PAtom(path + storesBefore(x, path))
			}
			return e.opaque(v)
		case token.NOT:
			return PAtom("!(" + e.Of(x.X).String() + ")")
		case token.XOR:
			return PAtom("^(" + e.Of(x.X).String() + ")")
		}
	case *ssa.Field:
		if path, ok := AccessPath(x); ok {
			return PAtom(path)
		}
		return PAtom("(" + e.Of(x.X).String() + ")." + fieldName(x.X.Type(), x.Field))
	case *ssa.Phi:
		var parts []string
		same := true
		var first *Poly
		for _, ed := range x.Edges {
			if ed == v {
				continue
			}
			// guard against cycles through phis
			if ph, ok := ed.(*ssa.Phi); ok {
				if _, done := e.memo[ph]; !done {
					parts = append(parts, "phi:"+ph.Name())
					same = false
					continue
				}
			}
			e.memo[v] = PAtom("phi:" + v.Name()) // cycle breaker
			p := e.Of(ed)
			delete(e.memo, v)
			if first == nil {
				first = p
			} else if !first.Equal(p) {
				same = false
			}
			parts = append(parts, p.String())
		}
		if same && first != nil {
			return first
		}
		sort.Strings(parts)
		return PAtom("phi{" + strings.Join(parts, " | ") + "}")
	case *ssa.Call:
		return e.ofCall(x)
	case *ssa.Extract:
		if c, ok := x.Tuple.(*ssa.Call); ok {
			base := e.ofCall(c)
			if k, isC := base.IsConst(); isC {
				_ = k
				return base
			}
			return PAtom(base.String() + "." + strconv.Itoa(x.Index))
		}
		return e.opaque(v)
	case *ssa.Global:
		return PAtom(x.Pkg.Pkg.Name() + "." + x.Name())
	case *ssa.MakeInterface:
		return e.Of(x.X)
	}
	return e.opaque(v)
}

// inlinable: single-block pure function returning one value.
func inlinable(f *ssa.Function) bool {
	if f == nil || len(f.Blocks) != 1 || !InFq(f) {
		return false
	}
	b := f.Blocks[0]
	if len(b.Instrs) > 12 {
		return false
	}
	for _, ins := range b.Instrs {
		switch x := ins.(type) {
		case *ssa.Return:
			if len(x.Results) != 1 {
				return false
			}
		case *ssa.BinOp, *ssa.UnOp, *ssa.Field, *ssa.FieldAddr, *ssa.Convert, *ssa.ChangeType, *ssa.DebugRef:
		default:
			return false
		}
	}
	return true
}

func (e *PolyEnv) ofCall(c *ssa.Call) *Poly {
	cc := c.Common()
	name := calleeShort(cc)
	var args []string
	var argPolys []*Poly
	if cc.IsInvoke() {
		argPolys = append(argPolys, e.Of(cc.Value))
	}
	for _, a := range cc.Args {
		argPolys = append(argPolys, e.Of(a))
	}
	for _, p := range argPolys {
		args = append(args, p.String())
	}
	callee := cc.StaticCallee()
	if callee != nil && e.depth < 2 && inlinable(callee) {
		sub := &PolyEnv{Fn: callee, Subst: map[ssa.Value]*Poly{}, Pure: e.Pure, depth: e.depth + 1, memo: map[ssa.Value]*Poly{}}
		for i, p := range callee.Params {
			if i < len(cc.Args) {
				sub.Subst[p] = argPolys[i]
			}
		}
		// field loads through a substituted pointer parameter: rename path root
		ret := callee.Blocks[0].Instrs[len(callee.Blocks[0].Instrs)-1].(*ssa.Return)
		r := sub.ofInlined(ret.Results[0], cc.Args, callee, e)
		if r != nil {
			return r
		}
	}
	if b, ok := cc.Value.(*ssa.Builtin); ok {
		switch b.Name() {
		case "len", "cap":
			if path, ok := AccessPath(cc.Args[0]); ok {
				return PAtom(b.Name() + "(" + path + ")")
			}
			return PAtom(b.Name() + "(" + args[0] + ")")
		case "min", "max":
			sort.Strings(args)
			return PAtom(b.Name() + "(" + strings.Join(args, ", ") + ")")
		}
	}
	full := ""
	if callee != nil {
		full = callee.String()
	}
	if e.Pure[full] || e.Pure[name] {
		return PAtom(name + "(" + strings.Join(args, ", ") + ")")
	}
	// identity = ordinal of this call among calls to the same callee name in the function
	ord := 0
	found := false
	if fn := c.Parent(); fn != nil {
		for _, b := range fn.Blocks {
			for _, ins := range b.Instrs {
				if cl, ok := ins.(*ssa.Call); ok && calleeShort(cl.Common()) == name {
					ord++
					if cl == c {
						found = true
						break
					}
				}
			}
			if found {
				break
			}
		}
	}
	return PAtom(name + "#" + strconv.Itoa(ord) + "(" + strings.Join(args, ", ") + ")")
}

// ofInlined evaluates a value of an inlinable callee with its parameters replaced by the
// caller's argument values (so that access paths are rooted in the caller's names).
func (e *PolyEnv) ofInlined(v ssa.Value, args []ssa.Value, callee *ssa.Function, caller *PolyEnv) *Poly {
	pm := map[ssa.Value]ssa.Value{}
	for i, p := range callee.Params {
		if i < len(args) {
			pm[p] = args[i]
		}
	}
	var rec func(v ssa.Value) *Poly
	rec = func(v ssa.Value) *Poly {
		if a, ok := pm[v]; ok {
			return caller.Of(a)
		}
		switch x := v.(type) {
		case *ssa.Const:
			return e.of(x)
		case *ssa.BinOp:
			a, b := rec(x.X), rec(x.Y)
			if a == nil || b == nil {
				return nil
			}
			switch x.Op {
			case token.ADD:
				return a.Add(b)
			case token.SUB:
				return a.Sub(b)
			case token.MUL:
				return a.Mul(b)
			case token.SHL:
				if c, ok := b.IsConst(); ok && c >= 0 && c < 63 {
					return a.MulC(1 << uint(c))
				}
			}
			return PAtom("(" + a.String() + " " + x.Op.String() + " " + b.String() + ")")
		case *ssa.Convert:
			if isIntType(x.Type()) && isIntType(x.X.Type()) {
				return rec(x.X)
			}
			return nil
		case *ssa.ChangeType:
			return rec(x.X)
		case *ssa.UnOp:
			if x.Op == token.SUB {
				if a := rec(x.X); a != nil {
					return a.Neg()
				}
				return nil
			}
			if x.Op == token.MUL {
				// load of field through a parameter
				if fa, ok := x.X.(*ssa.FieldAddr); ok {
					if a, ok := pm[fa.X]; ok {
						if path, ok := AccessPath(a); ok {
							return PAtom(path + "." + fieldName(fa.X.Type(), fa.Field))
						}
						// value-typed receiver spilled etc.
						return PAtom("(" + caller.Of(a).String() + ")." + fieldName(fa.X.Type(), fa.Field))
					}
				}
			}
			return nil
		case *ssa.Field:
			if a, ok := pm[x.X]; ok {
				if path, ok := AccessPath(a); ok {
					return PAtom(path + "." + fieldName(x.X.Type(), x.Field))
				}
				return PAtom("(" + caller.Of(a).String() + ")." + fieldName(x.X.Type(), x.Field))
			}
			return nil
		}
		return nil
	}
	return rec(v)
}

// ---------------------------------------------------------------------------
// comparisons

// Rel is a relation "P rel 0".
type Rel int

const (
	EQ Rel = iota
	NE
	LT
	LE
	GT
	GE
)

func (r Rel) String() string { return [...]string{"==", "!=", "<", "<=", ">", ">="}[r] }

func (r Rel) Negate() Rel { return [...]Rel{NE, EQ, GE, GT, LE, LT}[r] }

// Cmp is the fact  P rel 0.
type Cmp struct {
	P   *Poly
	Rel Rel
}

func (c Cmp) String() string { return c.P.String() + " " + c.Rel.String() + " 0" }

// CmpOf normalises a boolean SSA value that is an integer comparison: X op Y  =>  (X-Y) op 0.
func (e *PolyEnv) CmpOf(v ssa.Value) (Cmp, bool) {
	b, ok := v.(*ssa.BinOp)
	if !ok {
		return Cmp{}, false
	}
	var r Rel
	switch b.Op {
	case token.EQL:
		r = EQ
	case token.NEQ:
		r = NE
	case token.LSS:
		r = LT
	case token.LEQ:
		r = LE
	case token.GTR:
		r = GT
	case token.GEQ:
		r = GE
	default:
		return Cmp{}, false
	}
	if !isIntType(b.X.Type()) {
		return Cmp{}, false
	}
	return Cmp{P: e.Of(b.X).Sub(e.Of(b.Y)), Rel: r}, true
}

// Implies reports whether fact c implies the query q (both "P rel 0"), using only
// the syntactic rule: q.P = s*c.P + d for s in {1,-1} and a constant d.
func (c Cmp) Implies(q Cmp) bool {
	for _, s := range []int64{1, -1} {
		cp := c.P.MulC(s)
		rel := c.Rel
		if s == -1 {
			switch rel {
			case LT:
				rel = GT
			case LE:
				rel = GE
			case GT:
				rel = LT
			case GE:
				rel = LE
			}
		}
		dpoly := q.P.Sub(cp)
		d, ok := dpoly.IsConst()
		if !ok {
			continue
		}
		// know: cp rel 0 ; query: cp + d  qrel 0
		// express known as interval for cp: EQ -> [0,0], LT -> (-inf,-1], LE -> (-inf,0], GT -> [1,inf), GE -> [0,inf), NE -> none
		lo, hi := int64(-1<<62), int64(1<<62)
		switch rel {
		case EQ:
			lo, hi = 0, 0
		case LT:
			hi = -1
		case LE:
			hi = 0
		case GT:
			lo = 1
		case GE:
			lo = 0
		case NE:
			if q.Rel == NE && d == 0 {
				return true
			}
			continue
		}
		lo2, hi2 := lo, hi
		if lo > -1<<62 {
			lo2 = lo + d
		}
		if hi < 1<<62 {
			hi2 = hi + d
		}
		switch q.Rel {
		case EQ:
			if lo2 == 0 && hi2 == 0 {
				return true
			}
		case NE:
			if lo2 > 0 || hi2 < 0 {
				return true
			}
		case LT:
			if hi2 < 0 {
				return true
			}
		case LE:
			if hi2 <= 0 {
				return true
			}
		case GT:
			if lo2 > 0 {
				return true
			}
		case GE:
			if lo2 >= 0 {
				return true
			}
		}
	}
	return false
}

var verRe = regexp.MustCompile(`#after-store[0-9,]+`)

// StripVersions removes the store-version suffixes of field atoms (used where a rule compares
// values inside one loop iteration, before the iteration's own stores).
func StripVersions(p *Poly) *Poly {
	q := NewPoly()
	for k, v := range p.T {
		nk := verRe.ReplaceAllString(k, "")
		if nk != "" {
			parts := splitMono(nk)
			sort.Strings(parts)
			nk = strings.Join(parts, "*")
		}
		if x, ok := q.T[nk]; ok {
			x.Add(x, v)
			if x.Sign() == 0 {
				delete(q.T, nk)
			}
		} else {
			q.T[nk] = new(big.Int).Set(v)
		}
	}
	return q
}
