#!/usr/bin/env python3
"""Confirm a change written by a mutation agent, in a scratch worktree (never in /repo).
usage: tools_confirm.py <srcroot> <wtroot> <PROP> <k>      e.g. /tmp/mut7 /tmp/wtc C05 2
Procedure: scratch worktree at /repo HEAD: demo on the clean tree (must pass) -> git apply patch ->
go build ./... && GOARCH=386 go build ./... && go test -vet=off -count=1 ./... (must be all ok) ->
demo (must fail) -> revert.  Writes <srcroot>/confirm/<PROP>_<k>.json."""
import json, os, shutil, subprocess, sys

src, wtroot, ID, k = sys.argv[1:5]
ENV = dict(os.environ, GOFLAGS='-mod=mod', GOPROXY='off', GOSUMDB='off', GOTOOLCHAIN='local')


def sh(cmd, cwd=None, timeout=1500):
    try:
        p = subprocess.run(cmd, shell=True, cwd=cwd, env=ENV, capture_output=True, text=True, timeout=timeout)
        return p.returncode, p.stdout + p.stderr
    except subprocess.TimeoutExpired:
        return 124, 'timeout'


head = sh('git -C /repo rev-parse HEAD')[1].strip()
wt = '%s/%s_%s' % (wtroot, ID, k)
mdir = '%s/%s/%s' % (src, ID, k)
os.makedirs(src + '/confirm', exist_ok=True)
out = {'id': ID, 'k': k, 'confirmed': False, 'tree': 'HEAD ' + head[:8]}
res = src + '/confirm/%s_%s.json' % (ID, k)


def done():
    json.dump(out, open(res, 'w'), indent=1)
    sh('git -C /repo worktree remove --force ' + wt)
    print(ID, k, 'confirmed' if out['confirmed'] else 'NOT confirmed: ' + out.get('why', ''))
    sys.exit(0)


if not (os.path.exists(mdir + '/patch.diff') and os.path.exists(mdir + '/meta.json')):
    out['why'] = 'patch.diff or meta.json missing'
    json.dump(out, open(res, 'w'), indent=1)
    print(ID, k, 'missing')
    sys.exit(0)
meta = json.load(open(mdir + '/meta.json'))
if not os.path.isdir(wt):
    rc, o = sh('git -C /repo worktree add -q --detach %s %s' % (wt, head))
    if rc:
        out['why'] = 'worktree: ' + o[-300:]
        done()

demo = mdir + '/demo'
kind = meta.get('demo_kind') or ('sh' if os.path.exists(demo + '/demo.sh') else 'gotest')
copied = []


def run_demo():
    if kind == 'sh':
        return sh('sh %s/demo.sh %s' % (demo, wt), cwd=demo, timeout=600)
    pkg = meta.get('demo_pkg_dir', '').strip('./') or '.'
    dst = os.path.join(wt, pkg)
    for f in os.listdir(demo):
        if os.path.isfile(os.path.join(demo, f)):
            shutil.copy(os.path.join(demo, f), os.path.join(dst, f))
            copied.append(os.path.join(dst, f))
    run = meta.get('demo_run') or 'ZZ|Demo'
    r = sh("go test -vet=off -count=1 -run '%s' ./%s/" % (run, pkg), cwd=wt, timeout=900)
    for f in copied:
        if os.path.exists(f):
            os.remove(f)
    return r


rc, o = run_demo()
out['demo_on_clean_tree_exit'] = rc
if rc != 0:
    out['why'] = 'demo fails on the clean tree: ' + o[-400:]
    done()
if kind == 'gotest' and ('no tests to run' in o or 'no test files' in o):
    out['why'] = 'demo ran no tests: ' + o[-200:]
    done()
rc, o = sh('git apply %s/patch.diff' % mdir, cwd=wt)
if rc:
    out['why'] = 'patch does not apply: ' + o[-300:]
    done()
rc, o = sh('go build ./... && GOARCH=386 go build ./... && go test -vet=off -count=1 ./... 2>&1 | grep -v "no test files"', cwd=wt)
bad = [l for l in o.splitlines() if l.startswith('FAIL') or l.startswith('--- FAIL') or 'panic:' in l or 'cannot use' in l or 'undefined' in l]
out['full_suite_with_patch'] = 'all ok' if not bad and 'ok ' in o else 'FAILED: ' + '\n'.join(bad[:5]) + o[-300:]
if out['full_suite_with_patch'] != 'all ok':
    out['why'] = 'suite: ' + out['full_suite_with_patch'][:400]
    done()
rc, o = run_demo()
out['demo_with_patch_exit'] = rc
out['demo_with_patch_tail'] = o[-400:]
if rc == 0:
    out['why'] = 'demo passes with the patch'
    done()
out['confirmed'] = True
out['procedure'] = 'scratch worktree: clean demo (must pass) -> git apply patch -> go build ./... (amd64, 386) && go test -vet=off -count=1 ./... (must be all ok) -> demo (must fail) -> worktree removed'
done()
