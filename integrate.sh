#!/bin/sh
# usage: integrate.sh C05   -- import a builder's rule files from /tmp/build/<ID>/checker and merge its known findings
ID=$1; id=$(echo $ID | tr 'A-Z' 'a-z')
B=/tmp/build/$ID/checker
cp $B/rules/${id}*.go /verif/checker/rules/ || exit 1
ls $B/fw/${id}_*.go >/dev/null 2>&1 && cp $B/fw/${id}_*.go /verif/checker/fw/
python3 - "$ID" <<'P'
import json,sys
ID=sys.argv[1]
dst=json.load(open('/verif/known_findings.json'))
try:
    src=json.load(open('/tmp/build/%s/vd/known_findings.json'%ID))
except Exception as e:
    src={"findings":[],"fixed":[]}
have={(f['property'],f['rule'],f['key']) for f in dst['findings']}
n=0
for f in src.get('findings',[]):
    if f['property']==ID and (f['property'],f['rule'],f['key']) not in have:
        dst['findings'].append(f); n+=1
json.dump(dst,open('/verif/known_findings.json','w'),indent=1)
print("merged",n,"known findings for",ID)
P
export GOFLAGS=-mod=mod GOPROXY=off GOSUMDB=off GOTOOLCHAIN=local GOWORK=off
(cd /verif/checker && go build -o /verif/bin/fqverif ./cmd/fqverif) || exit 1
VERIF_DIR=/verif /verif/bin/fqverif -property $ID > /tmp/int_$ID.out 2>&1; echo "rc=$?"
grep "^==\|^KNOWN\|^  VIOLATION\|^  UNDEC" /tmp/int_$ID.out | cut -c1-260 | head -30
